//! Model of `tracing`: logging macros with empty bodies.
#[macro_export] macro_rules! trace { ($($t:tt)*) => {{}} }
#[macro_export] macro_rules! debug { ($($t:tt)*) => {{}} }
#[macro_export] macro_rules! info { ($($t:tt)*) => {{}} }
#[macro_export] macro_rules! warn { ($($t:tt)*) => {{}} }
#[macro_export] macro_rules! error { ($($t:tt)*) => {{}} }
