//! Shared model of the OS ("world"): fds, epoll table, clock.
#![allow(static_mut_refs)]
pub const NFD: usize = 4;
pub const FD_BASE: i32 = 100;

#[derive(Clone, Copy, PartialEq, Eq, Debug)]
pub enum Kind { Free, EventFd, Plain, SignalFd }
#[derive(Clone, Copy, PartialEq, Eq, Debug)]
pub enum PMode { Oneshot, Level, Edge }

#[derive(Clone, Copy, Debug)]
pub struct Fd {
    pub kind: Kind,
    pub counter: u64,     // eventfd
    pub readable: bool,   // plain
    pub writable: bool,   // plain
    pub nonblock: bool,
    pub sfd_mask: u64,    // signalfd
    // epoll registration
    pub reg: bool,
    pub key: usize,
    pub want_r: bool,
    pub want_w: bool,
    pub mode: PMode,
    pub armed: bool,
}
pub const FD0: Fd = Fd { kind: Kind::Free, counter: 0, readable: false, writable: false, nonblock: false, sfd_mask: 0,
    reg: false, key: 0, want_r: false, want_w: false, mode: PMode::Oneshot, armed: false };

pub struct World {
    pub fds: [Fd; NFD],
    pub notified: bool,
    pub now_s: u64, pub now_sub: u32,
    pub blocked_forever: bool,
    /// the last timeout handed to `Poller::wait` (None = wait forever), and how often wait ran
    pub last_wait: Option<(u64, u32)>,
    pub waits: u32,
    /// fault switches: a harness sets them to symbolic values; a set switch makes the next call
    /// of that kind fail with EIO (and clears itself)
    pub fail_add: bool, pub fail_modify: bool, pub fail_delete: bool, pub fail_wait: bool,
    /// call counters, so that harnesses can assert "no poller call happened"
    pub n_add: u32, pub n_modify: u32, pub n_delete: u32,
    // ---- signals (env/nix)
    pub sig_blocked: u64,      // thread signal mask
    pub sig_pending: u64,      // pending (standard signals do not queue)
    pub sig_default_fired: u64 // signals delivered by default disposition (unblocked while pending)
}
pub static mut W: World = World { fds: [FD0; NFD], notified: false, now_s: 1000, now_sub: 0, blocked_forever: false,
    last_wait: None, waits: 0, fail_add: false, fail_modify: false, fail_delete: false, fail_wait: false,
    n_add: 0, n_modify: 0, n_delete: 0, sig_blocked: 0, sig_pending: 0, sig_default_fired: 0 };

pub fn w() -> &'static mut World { unsafe { &mut W } }
pub fn idx(fd: i32) -> Option<usize> {
    let i = fd - FD_BASE;
    if i >= 0 && (i as usize) < NFD { Some(i as usize) } else { None }
}
pub fn alloc(kind: Kind) -> Option<i32> {
    let w = w();
    macro_rules! one { ($i:expr) => { if w.fds[$i].kind == Kind::Free { w.fds[$i] = FD0; w.fds[$i].kind = kind; return Some(FD_BASE + $i as i32); } } }
    one!(0); one!(1); one!(2); one!(3);
    None
}
impl Fd {
    pub fn is_readable(&self) -> bool { match self.kind { Kind::EventFd => self.counter > 0, Kind::Plain => self.readable,
        Kind::SignalFd => (self.sfd_mask & w().sig_pending) != 0, Kind::Free => false } }
    pub fn is_writable(&self) -> bool { match self.kind { Kind::EventFd => true, Kind::Plain => self.writable, Kind::SignalFd => false, Kind::Free => false } }
}
