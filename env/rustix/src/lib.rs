//! Model of the `rustix` API subset used by calloop, over verif-world.
pub mod io {
    use std::os::unix::io::{AsFd, AsRawFd};
    use verif_world::{idx, w, Kind};
    #[derive(Debug, Clone, Copy, PartialEq, Eq)]
    pub struct Errno(pub i32);
    impl Errno { pub const AGAIN: Errno = Errno(11); pub const BADF: Errno = Errno(9); pub const INVAL: Errno = Errno(22); }
    impl From<Errno> for std::io::Error { fn from(e: Errno) -> Self { std::io::Error::from_raw_os_error(e.0) } }
    impl std::fmt::Display for Errno { fn fmt(&self, f: &mut std::fmt::Formatter<'_>) -> std::fmt::Result { write!(f, "errno") } }
    impl std::error::Error for Errno {}
    pub type Result<T> = core::result::Result<T, Errno>;
    pub fn read<Fd: AsFd>(fd: Fd, buf: &mut [u8]) -> Result<usize> {
        let Some(i) = idx(fd.as_fd().as_raw_fd()) else { return Err(Errno::BADF) };
        let f = &mut w().fds[i];
        match f.kind {
            Kind::EventFd => {
                if buf.len() < 8 { return Err(Errno::INVAL); }
                if f.counter == 0 { return Err(Errno::AGAIN); }
                let b = f.counter.to_ne_bytes();
                buf[0]=b[0];buf[1]=b[1];buf[2]=b[2];buf[3]=b[3];buf[4]=b[4];buf[5]=b[5];buf[6]=b[6];buf[7]=b[7];
                f.counter = 0;
                Ok(8)
            }
            _ => Err(Errno::BADF),
        }
    }
    pub fn write<Fd: AsFd>(fd: Fd, buf: &[u8]) -> Result<usize> {
        let Some(i) = idx(fd.as_fd().as_raw_fd()) else { return Err(Errno::BADF) };
        let f = &mut w().fds[i];
        match f.kind {
            Kind::EventFd => {
                if buf.len() != 8 { return Err(Errno::INVAL); }
                let b = [buf[0],buf[1],buf[2],buf[3],buf[4],buf[5],buf[6],buf[7]];
                let v = u64::from_ne_bytes(b);
                if v == u64::MAX { return Err(Errno::INVAL); }
                match f.counter.checked_add(v) { Some(n) if n <= u64::MAX - 1 => { f.counter = n; Ok(8) } _ => Err(Errno::AGAIN) }
            }
            _ => Err(Errno::BADF),
        }
    }
}
pub mod event {
    use std::os::unix::io::{FromRawFd, OwnedFd};
    bitflags::bitflags! { #[derive(Clone, Copy, Debug, PartialEq, Eq)] pub struct EventfdFlags: u32 { const CLOEXEC = 1; const NONBLOCK = 2; const SEMAPHORE = 4; } }
    pub fn eventfd(initval: u32, _flags: EventfdFlags) -> crate::io::Result<OwnedFd> {
        match verif_world::alloc(verif_world::Kind::EventFd) {
            Some(fd) => { verif_world::w().fds[verif_world::idx(fd).unwrap()].counter = initval as u64; Ok(unsafe { OwnedFd::from_raw_fd(fd) }) }
            None => Err(crate::io::Errno(24)),
        }
    }
}
pub mod fs {
    use std::os::unix::io::{AsFd, AsRawFd};
    bitflags::bitflags! { #[derive(Clone, Copy, Debug, PartialEq, Eq)] pub struct OFlags: u32 { const NONBLOCK = 0o4000; } }
    pub fn fcntl_getfl<Fd: AsFd>(fd: Fd) -> crate::io::Result<OFlags> {
        let Some(i) = verif_world::idx(fd.as_fd().as_raw_fd()) else { return Err(crate::io::Errno::BADF) };
        Ok(if verif_world::w().fds[i].nonblock { OFlags::NONBLOCK } else { OFlags::empty() })
    }
    pub fn fcntl_setfl<Fd: AsFd>(fd: Fd, flags: OFlags) -> crate::io::Result<()> {
        let Some(i) = verif_world::idx(fd.as_fd().as_raw_fd()) else { return Err(crate::io::Errno::BADF) };
        verif_world::w().fds[i].nonblock = flags.contains(OFlags::NONBLOCK); Ok(())
    }
}
