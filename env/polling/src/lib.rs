//! Model of the `polling` 3.x API subset used by calloop, over verif-world.
//!
//! Contract encoded (from polling's documentation of the epoll backend):
//!  * `add_with_mode`: EINVAL for the reserved key usize::MAX, EBADF for an fd that is not
//!    open, EEXIST if the fd is already in the interest list;
//!  * `modify*` / `delete`: ENOENT if the fd is not in the interest list; `modify` re-arms;
//!  * `wait`: for every registered, armed fd whose readiness intersects its interest, one event
//!    carrying exactly the key it was registered with; Oneshot disarms after one report until
//!    `modify`; Level reports while ready; Edge reports once per readiness transition
//!    (re-armed by `modify` or by the readiness going away and coming back);
//!  * `notify` is sticky until the next `wait`, which then returns at once;
//!  * `wait(Some(t))` with nothing ready sleeps exactly `t` (model clock), `wait(None)` with
//!    nothing ready and no notification blocks forever (recorded in the world).
//! Every call can additionally fail with EIO when the harness arms the corresponding
//! symbolic fault switch in the world. No loops (unrolled by macro), no division.
use std::io;
use std::os::unix::io::{AsFd, AsRawFd, BorrowedFd, RawFd};
use std::time::Duration;
use verif_world::{idx, w, PMode, NFD};

const NOTIFY_KEY: usize = usize::MAX;

#[derive(Debug, Clone, Copy, PartialEq, Eq)]
pub struct Event { pub key: usize, pub readable: bool, pub writable: bool }
impl Event {
    pub const fn new(key: usize, readable: bool, writable: bool) -> Event { Event { key, readable, writable } }
    pub const fn all(key: usize) -> Event { Event::new(key, true, true) }
    pub const fn readable(key: usize) -> Event { Event::new(key, true, false) }
    pub const fn writable(key: usize) -> Event { Event::new(key, false, true) }
    pub const fn none(key: usize) -> Event { Event::new(key, false, false) }
}
#[derive(Debug, Clone, Copy, PartialEq, Eq, PartialOrd, Ord, Hash)]
#[non_exhaustive]
pub enum PollMode { Oneshot, Level, Edge, EdgeOneshot }

pub struct Events { list: [Event; NFD], len: usize }
impl Events {
    pub fn new() -> Self { Events { list: [Event::none(0); NFD], len: 0 } }
    pub fn iter(&self) -> impl Iterator<Item = Event> + '_ { self.list[..self.len].iter().copied() }
    pub fn clear(&mut self) { self.len = 0; }
    pub fn len(&self) -> usize { self.len }
    pub fn is_empty(&self) -> bool { self.len == 0 }
}
impl Default for Events { fn default() -> Self { Self::new() } }
pub trait AsRawSource { fn raw(&self) -> RawFd; }
impl<T: AsRawFd> AsRawSource for &T { fn raw(&self) -> RawFd { self.as_raw_fd() } }
impl AsRawSource for RawFd { fn raw(&self) -> RawFd { *self } }
pub trait AsSource: AsFd { fn source(&self) -> BorrowedFd<'_> { self.as_fd() } }
impl<T: AsFd> AsSource for T {}

#[derive(Debug)]
pub struct Poller { _p: () }

fn err(code: i32) -> io::Error { io::Error::from_raw_os_error(code) }
fn cvt(mode: PollMode) -> PMode { match mode { PollMode::Oneshot | PollMode::EdgeOneshot => PMode::Oneshot, PollMode::Level => PMode::Level, PollMode::Edge => PMode::Edge } }

impl Poller {
    pub fn new() -> io::Result<Poller> { Ok(Poller { _p: () }) }
    pub fn supports_level(&self) -> bool { true }
    pub fn supports_edge(&self) -> bool { true }
    /// # Safety
    /// as in polling
    pub unsafe fn add(&self, source: impl AsRawSource, interest: Event) -> io::Result<()> { self.add_with_mode(source, interest, PollMode::Oneshot) }
    /// # Safety
    /// as in polling
    pub unsafe fn add_with_mode(&self, source: impl AsRawSource, interest: Event, mode: PollMode) -> io::Result<()> {
        let wd = w();
        wd.n_add += 1;
        if wd.fail_add { wd.fail_add = false; return Err(err(5)); }
        if interest.key == NOTIFY_KEY { return Err(err(22)); }
        let Some(i) = idx(source.raw()) else { return Err(err(9)) };
        let f = &mut wd.fds[i];
        if f.kind == verif_world::Kind::Free { return Err(err(9)); }
        if f.reg { return Err(err(17)); }
        f.reg = true; f.key = interest.key; f.want_r = interest.readable; f.want_w = interest.writable; f.mode = cvt(mode); f.armed = true;
        Ok(())
    }
    pub fn modify(&self, source: impl AsSource, interest: Event) -> io::Result<()> { self.modify_with_mode(source, interest, PollMode::Oneshot) }
    pub fn modify_with_mode(&self, source: impl AsSource, interest: Event, mode: PollMode) -> io::Result<()> {
        let wd = w();
        wd.n_modify += 1;
        if wd.fail_modify { wd.fail_modify = false; return Err(err(5)); }
        if interest.key == NOTIFY_KEY { return Err(err(22)); }
        let Some(i) = idx(source.source().as_raw_fd()) else { return Err(err(9)) };
        let f = &mut wd.fds[i];
        if !f.reg { return Err(err(2)); }
        f.key = interest.key; f.want_r = interest.readable; f.want_w = interest.writable; f.mode = cvt(mode); f.armed = true;
        Ok(())
    }
    pub fn delete(&self, source: impl AsSource) -> io::Result<()> {
        let wd = w();
        wd.n_delete += 1;
        if wd.fail_delete { wd.fail_delete = false; return Err(err(5)); }
        let Some(i) = idx(source.source().as_raw_fd()) else { return Err(err(9)) };
        let f = &mut wd.fds[i];
        if !f.reg { return Err(err(2)); }
        f.reg = false;
        Ok(())
    }
    pub fn wait(&self, events: &mut Events, timeout: Option<Duration>) -> io::Result<usize> {
        let wd = w();
        wd.waits += 1;
        wd.last_wait = timeout.map(|t| (t.as_secs(), t.subsec_nanos()));
        if wd.fail_wait { wd.fail_wait = false; return Err(err(5)); }
        events.len = 0;
        macro_rules! one { ($i:expr) => {{
            let f = &mut wd.fds[$i];
            if f.reg {
                let r = f.want_r && f.is_readable();
                let wr = f.want_w && f.is_writable();
                if r || wr {
                    if f.armed {
                        events.list[events.len] = Event::new(f.key, r, wr);
                        events.len += 1;
                        if f.mode != PMode::Level { f.armed = false; }
                    }
                } else if f.mode == PMode::Edge {
                    // readiness went away: the next transition is reported again
                    f.armed = true;
                }
            }
        }} }
        one!(0); one!(1); one!(2); one!(3);
        if events.len == 0 && !wd.notified {
            match timeout {
                Some(t) => { let mut s = wd.now_s + t.as_secs(); let mut n = wd.now_sub + t.subsec_nanos(); if n >= 1_000_000_000 { n -= 1_000_000_000; s += 1; } wd.now_s = s; wd.now_sub = n; }
                None => { wd.blocked_forever = true; }
            }
        }
        wd.notified = false;
        Ok(events.len)
    }
    pub fn notify(&self) -> io::Result<()> { w().notified = true; Ok(()) }
}
impl AsRawFd for Poller { fn as_raw_fd(&self) -> RawFd { 99 } }
impl AsFd for Poller { fn as_fd(&self) -> BorrowedFd<'_> { unsafe { BorrowedFd::borrow_raw(99) } } }
