//! Model of the `nix` API subset used by calloop's `signals` source, over verif-world.
//!
//! Contract encoded (sigprocmask(2), signalfd(2)):
//!  * the thread has a set of blocked signals; `thread_block` adds a set, `thread_unblock`
//!    removes a set; unblocking a signal that is pending delivers it by its default
//!    disposition at once (recorded in `sig_default_fired`, pending bit cleared);
//!  * a signalfd has a mask; it is readable while a pending signal is in its mask; one read
//!    dequeues the lowest-numbered such signal (standard signals do not queue) and returns a
//!    siginfo whose `ssi_signo` is that number; with nothing to read: Ok(None) (non-blocking).
//! Sets are u64 bit sets indexed by signal number; no loops.
#![allow(non_camel_case_types)]
pub mod errno {
    #[derive(Debug, Clone, Copy, PartialEq, Eq)]
    pub struct Errno(pub i32);
    impl From<Errno> for std::io::Error { fn from(e: Errno) -> Self { std::io::Error::from_raw_os_error(e.0) } }
    impl std::fmt::Display for Errno { fn fmt(&self, f: &mut std::fmt::Formatter<'_>) -> std::fmt::Result { f.write_str("errno") } }
    impl std::error::Error for Errno {}
}
pub type Error = errno::Errno;
pub type Result<T> = core::result::Result<T, Error>;

pub mod sys {
    pub mod signal {
        use verif_world::w;
        macro_rules! sigs { ($($n:ident = $v:expr,)*) => {
            #[derive(Clone, Copy, Debug, Eq, PartialEq, PartialOrd, Ord, Hash)]
            #[repr(i32)]
            pub enum Signal { $($n = $v,)* }
            impl core::convert::TryFrom<i32> for Signal {
                type Error = crate::Error;
                fn try_from(v: i32) -> crate::Result<Signal> { match v { $($v => Ok(Signal::$n),)* _ => Err(crate::errno::Errno(22)) } }
            }
        } }
        sigs! { SIGHUP = 1, SIGINT = 2, SIGQUIT = 3, SIGILL = 4, SIGTRAP = 5, SIGABRT = 6, SIGBUS = 7, SIGFPE = 8,
            SIGKILL = 9, SIGUSR1 = 10, SIGSEGV = 11, SIGUSR2 = 12, SIGPIPE = 13, SIGALRM = 14, SIGTERM = 15,
            SIGSTKFLT = 16, SIGCHLD = 17, SIGCONT = 18, SIGSTOP = 19, SIGTSTP = 20, SIGTTIN = 21, SIGTTOU = 22,
            SIGURG = 23, SIGXCPU = 24, SIGXFSZ = 25, SIGVTALRM = 26, SIGPROF = 27, SIGWINCH = 28, SIGIO = 29,
            SIGPWR = 30, SIGSYS = 31, }
        #[derive(Clone, Copy, Debug, PartialEq, Eq)]
        pub struct SigSet { pub bits: u64 }
        impl SigSet {
            pub fn empty() -> SigSet { SigSet { bits: 0 } }
            pub fn add(&mut self, s: Signal) { self.bits |= 1u64 << (s as i32 as u32); }
            pub fn remove(&mut self, s: Signal) { self.bits &= !(1u64 << (s as i32 as u32)); }
            pub fn contains(&self, s: Signal) -> bool { self.bits & (1u64 << (s as i32 as u32)) != 0 }
            pub fn thread_block(&self) -> crate::Result<()> { w().sig_blocked |= self.bits; Ok(()) }
            pub fn thread_unblock(&self) -> crate::Result<()> {
                let wd = w();
                wd.sig_blocked &= !self.bits;
                deliver_unblocked();
                Ok(())
            }
            /// pthread_sigmask(SIG_SETMASK): the thread's mask becomes exactly this set
            pub fn thread_set_mask(&self) -> crate::Result<()> { w().sig_blocked = self.bits; deliver_unblocked(); Ok(()) }
            /// pthread_sigmask(how, self) returning the previous mask
            pub fn thread_swap_mask(&self, how: SigmaskHow) -> crate::Result<SigSet> {
                let wd = w();
                let old = SigSet { bits: wd.sig_blocked };
                match how {
                    SigmaskHow::SIG_BLOCK => wd.sig_blocked |= self.bits,
                    SigmaskHow::SIG_UNBLOCK => wd.sig_blocked &= !self.bits,
                    SigmaskHow::SIG_SETMASK => wd.sig_blocked = self.bits,
                }
                deliver_unblocked();
                Ok(old)
            }
            /// the calling thread's current mask
            pub fn thread_get_mask() -> crate::Result<SigSet> { Ok(SigSet { bits: w().sig_blocked }) }
        }
        #[allow(non_camel_case_types)]
        #[derive(Clone, Copy, Debug, PartialEq, Eq)]
        pub enum SigmaskHow { SIG_BLOCK, SIG_UNBLOCK, SIG_SETMASK }
        /// a pending signal that becomes unblocked is delivered by its default disposition
        fn deliver_unblocked() {
            let wd = w();
            let fired = wd.sig_pending & !wd.sig_blocked;
            wd.sig_default_fired |= fired;
            wd.sig_pending &= !fired;
        }
    }
    pub mod signalfd {
        use super::signal::SigSet;
        use std::os::unix::io::{AsRawFd, RawFd};
        use verif_world::{alloc, idx, w, Kind};
        #[derive(Clone, Copy, Debug, PartialEq, Eq)]
        pub struct SfdFlags(pub u32);
        impl SfdFlags { pub const SFD_NONBLOCK: SfdFlags = SfdFlags(0o4000); pub const SFD_CLOEXEC: SfdFlags = SfdFlags(0o2000000); }
        impl core::ops::BitOr for SfdFlags { type Output = SfdFlags; fn bitor(self, o: SfdFlags) -> SfdFlags { SfdFlags(self.0 | o.0) } }
        #[derive(Clone, Copy, Debug)]
        pub struct siginfo {
            pub ssi_signo: u32, pub ssi_errno: i32, pub ssi_code: i32, pub ssi_pid: u32, pub ssi_uid: u32, pub ssi_fd: i32,
            pub ssi_tid: u32, pub ssi_band: u32, pub ssi_overrun: u32, pub ssi_trapno: u32, pub ssi_status: i32,
        }
        #[derive(Debug)]
        pub struct SignalFd(pub RawFd);
        impl AsRawFd for SignalFd { fn as_raw_fd(&self) -> RawFd { self.0 } }
        impl SignalFd {
            pub fn with_flags(mask: &SigSet, _f: SfdFlags) -> crate::Result<SignalFd> {
                match alloc(Kind::SignalFd) {
                    Some(fd) => { w().fds[idx(fd).unwrap()].sfd_mask = mask.bits; Ok(SignalFd(fd)) }
                    None => Err(crate::errno::Errno(24)),
                }
            }
            pub fn set_mask(&self, mask: &SigSet) -> crate::Result<()> {
                let Some(i) = idx(self.0) else { return Err(crate::errno::Errno(9)) };
                w().fds[i].sfd_mask = mask.bits; Ok(())
            }
            pub fn read_signal(&self) -> crate::Result<Option<siginfo>> {
                let Some(i) = idx(self.0) else { return Err(crate::errno::Errno(9)) };
                let wd = w();
                let avail = wd.fds[i].sfd_mask & wd.sig_pending;
                if avail == 0 { return Ok(None); }
                let n = avail.trailing_zeros();
                wd.sig_pending &= !(1u64 << n);
                Ok(Some(siginfo { ssi_signo: n, ssi_errno: 0, ssi_code: 0, ssi_pid: 0, ssi_uid: 0, ssi_fd: 0, ssi_tid: 0,
                    ssi_band: 0, ssi_overrun: 0, ssi_trapno: 0, ssi_status: 0 }))
            }
        }
    }
}
