"""Symbolic executor over the parsed MIR (engine M).

A function is executed block by block from symbolic arguments.  Integers are z3
bit-vectors, bools z3 Bools, enums carry a (possibly symbolic) discriminant,
everything else is an opaque symbolic object with lazily created fields and
pointees.  Calls are (a) given semantics by a small table of std combinators,
(b) inlined when the obligation asks for it and the body is in the dump, or
(c) recorded as *events* with their symbolic arguments, returning a fresh
symbolic value.  The result is a list of paths, each with its path condition,
its ordered event trace (with the RefCell guards alive at every event) and its
return value.  Obligations (obligations.py) are assertions over these paths.

Unwinding edges are not followed: a panic ends the path with status 'panic'.
"""
import copy
import itertools
import re

import z3

from .mir_parse import Unsupported, parse_body

INT_BITS = {"u8": 8, "u16": 16, "u32": 32, "u64": 64, "u128": 128, "usize": 64,
            "i8": 8, "i16": 16, "i32": 32, "i64": 64, "i128": 128, "isize": 64, "char": 32}
SIGNED = {"i8", "i16", "i32", "i64", "i128", "isize"}

# discriminant indices of the std enums the code switches on
STD_ENUMS = {
    "Option": ["None", "Some"],
    "Result": ["Ok", "Err"],
    "ControlFlow": ["Continue", "Break"],
    "Poll": ["Ready", "Pending"],
    "TryRecvError": ["Empty", "Disconnected"],
    "TrySendError": ["Full", "Disconnected"],
    "Ordering": ["Less", "Equal", "Greater"],
    "Cow": ["Borrowed", "Owned"],
}

_ids = itertools.count(1)


class Sym:
    """opaque symbolic object (struct, pointer, trait object, guard ...)"""

    def __init__(self, ty, name):
        self.id = next(_ids)
        self.ty = ty or "?"
        self.name = name
        self.fields = {}
        self.pointee = None   # Obj
        self.tags = {}

    def __repr__(self):
        return "<%s:%s>" % (self.name, short_ty(self.ty))


class Enum:
    """enum value: disc is a python int or a z3 Int expr; payloads: variant name -> {field idx: value}"""

    def __init__(self, ty, disc, payloads=None, name=""):
        self.id = next(_ids)
        self.ty = ty or "?"
        self.disc = disc
        self.payloads = payloads or {}
        self.name = name
        self.tags = {}

    def __repr__(self):
        return "<enum %s %s d=%s>" % (self.name, short_ty(self.ty), self.disc)


class Agg:
    def __init__(self, ty, fields, name=""):
        self.id = next(_ids)
        self.ty = ty or "?"
        self.fields = list(fields)
        self.name = name

    def __repr__(self):
        return "<agg %s %s>" % (short_ty(self.ty), self.fields)


class Ref:
    def __init__(self, obj, path=(), mut=False):
        self.obj = obj
        self.path = tuple(path)
        self.mut = mut

    def __repr__(self):
        return "&%s%s" % (self.obj.name, "".join(
            (".%s" % p[1]) if p[0] == "f" else ("@%s" % p[1] if p[0] == "v" else "[%s]" % p[1]) for p in self.path))


class FnItem:
    def __init__(self, text):
        self.text = text

    def __repr__(self):
        return "fn:" + self.text


class Obj:
    def __init__(self, name, value=None):
        self.id = next(_ids)
        self.name = name
        self.value = value


UNIT = Agg("()", [], "unit")


def short_ty(t):
    t = re.sub(r"std::|core::|alloc::", "", t or "?")
    return t if len(t) < 60 else t[:57] + "..."


def enum_base(ty):
    """`std::option::Option<T>` -> 'Option'"""
    t = re.sub(r"^&(mut )?", "", (ty or "").strip())
    if t[:1] in "([{*" or t.startswith("dyn ") or t.startswith("impl "):
        return ""
    has_generics = "<" in t
    t = re.sub(r"<.*$", "", t)
    base = t.split("::")[-1]
    if base == "Poll" and (not has_generics or t.startswith("sys::") or t.startswith("crate::")):
        return ""          # calloop's own sys::Poll struct, not std::task::Poll<T>
    return base


class Event:
    def __init__(self, idx, kind, callee, args, ret, guards, frame):
        self.idx = idx
        self.kind = kind          # 'call' | 'borrow' | 'guard_drop' | 'drop' | 'panic' | 'callback' ...
        self.callee = callee
        self.args = args
        self.ret = ret
        self.guards = guards      # [(guard sym id, cell type, kind)] alive when the event happens
        self.frame = frame
        self.info = {}

    def __repr__(self):
        return "%s(%s)" % (self.callee if self.kind == "call" else self.kind + ":" + self.callee,
                           ", ".join(str(a) for a in self.args))


class Frame:
    def __init__(self, fn, depth):
        self.fn = fn
        self.locals = {}
        self.visits = {}
        self.depth = depth


class State:
    def __init__(self):
        self.frames = []
        self.pc = []
        self.trace = []
        self.guards = {}   # guard sym id -> (cell type, kind, cell obj id)
        self.status = None
        self.ret = None
        self.notes = []

    def clone(self):
        return copy.deepcopy(self)


class Config:
    def __init__(self, fns, enums=None, inline=None, unroll=2, max_paths=20000, max_depth=6, handlers=None,
                 loop_bounds=None):
        self.fns = fns                  # name -> Fn
        self.enums = dict(STD_ENUMS)
        self.enums.update(enums or {})
        self.inline = inline or []      # list of (callee regex, resolver regex on fn name/header)
        self.unroll = unroll
        self.loop_bounds = loop_bounds or {}
        self.max_paths = max_paths
        self.max_depth = max_depth
        self.handlers = handlers or []
        self.closure_index = None
        self.opaque = {}                # callee -> count (reported in evidence)
        self.solver = z3.Solver()
        self.queries = 0
        self.solver_s = 0.0


class Executor:
    def __init__(self, cfg):
        self.cfg = cfg
        self.paths = []
        if cfg.closure_index is None:
            idx = {}
            for f in cfg.fns.values():
                if f.params and f.params[0][1].startswith("{closure@") or \
                   (f.params and re.match(r"&(mut )?\{closure@", f.params[0][1])):
                    t = re.sub(r"^&(mut )?", "", f.params[0][1])
                    idx[t] = f
            cfg.closure_index = idx

    # ------------------------------------------------------------ value helpers
    def fresh(self, ty, name):
        ty = (ty or "?").strip()
        if ty == "bool":
            return z3.Bool("b_%s_%d" % (re.sub(r"\W", "_", name)[-30:], next(_ids)))
        if ty in INT_BITS:
            return z3.BitVec("i_%s_%d" % (re.sub(r"\W", "_", name)[-30:], next(_ids)), INT_BITS[ty])
        if ty == "()":
            return UNIT
        base = enum_base(ty)
        if base in self.cfg.enums and not ty.startswith("&") and not ty.startswith("*"):
            return Enum(ty, z3.Int("d_%s_%d" % (re.sub(r"\W", "_", name)[-30:], next(_ids))), {}, name)
        return Sym(ty, name)

    def variant_index(self, ty, vname):
        base = enum_base(ty)
        vs = self.cfg.enums.get(base)
        if vs and vname in vs:
            return vs.index(vname)
        return None

    def feasible(self, st, extra=None):
        cs = list(st.pc) + ([extra] if extra is not None else [])
        if not cs:
            return True
        import time
        t = time.time()
        r = self.cfg.solver.check(*cs)
        self.cfg.queries += 1
        self.cfg.solver_s += time.time() - t
        if r == z3.unknown:
            raise Unsupported("z3 unknown on a path condition")
        return r == z3.sat

    # ------------------------------------------------------------ memory
    def local_obj(self, fr, loc):
        o = fr.locals.get(loc)
        if o is None:
            o = Obj("%s%s" % (fr.fn.debug.get(loc, ""), loc), None)
            fr.locals[loc] = o
        return o

    def resolve(self, st, fr, place):
        """place -> (Obj, path)"""
        k = place[0]
        if k == "local":
            return self.local_obj(fr, place[1]), ()
        if k == "field":
            o, p = self.resolve(st, fr, place[1])
            return o, p + (("f", place[2], place[3]),)
        if k == "downcast":
            o, p = self.resolve(st, fr, place[1])
            return o, p + (("v", place[2]),)
        if k == "deref":
            o, p = self.resolve(st, fr, place[1])
            v = self.read(st, o, p, None)
            if isinstance(v, Ref):
                return v.obj, v.path
            if isinstance(v, Sym):
                return self.pointee(v), ()
            raise Unsupported("deref of %r in %s" % (v, fr.fn.short()))
        if k == "index":
            o, p = self.resolve(st, fr, place[1])
            return o, p + (("i", place[2]),)
        raise Unsupported("place kind " + k)

    def pointee(self, s):
        if s.pointee is None:
            t0 = s.ty or "?"
            t = re.sub(r"^(&(mut )?|\*(const|mut) )", "", t0)
            if t == t0:   # not a plain reference: strip one smart-pointer / cell layer
                m = re.match(r"^(?:std::rc::|std::sync::|alloc::rc::|alloc::sync::|std::boxed::|std::cell::|cell::|rc::|sync::)?(?:Rc|Arc|Box|Ref|RefMut|MutexGuard|RefCell|Cell)<(?:'_, )?(.*)>$", t)
                if m:
                    t = m.group(1)
            s.pointee = Obj("*" + s.name, None)
            s.pointee.value = self.fresh(t, "*" + s.name)
        return s.pointee

    def read(self, st, obj, path, ty_hint):
        v = obj.value
        if v is None:
            v = obj.value = self.fresh(ty_hint if not path else "?", obj.name)
        for i, step in enumerate(path):
            v = self.project(v, step, obj, path[:i])
        return v

    def project(self, v, step, obj=None, prefix=()):
        if step[0] == "f":
            k, ty = step[1], step[2]
            if isinstance(v, Agg):
                while len(v.fields) <= k:
                    v.fields.append(None)
                if v.fields[k] is None:
                    v.fields[k] = self.fresh(ty, "%s.%d" % (v.name, k))
                return v.fields[k]
            if isinstance(v, Sym):
                if k not in v.fields:
                    v.fields[k] = self.fresh(ty, "%s.%d" % (v.name, k))
                return v.fields[k]
            if isinstance(v, dict):   # a variant payload
                if k not in v:
                    v[k] = self.fresh(ty, "%s.%d" % (v.get("_name", "v"), k))
                return v[k]
            raise Unsupported("field projection on %r" % (v,))
        if step[0] == "v":
            if isinstance(v, Enum):
                pl = v.payloads.setdefault(step[1], {"_name": "%s@%s" % (v.name, step[1])})
                return pl
            if isinstance(v, Sym):
                # an enum we did not recognise by type: treat per-variant payloads as fields
                key = "v:" + step[1]
                if key not in v.fields:
                    v.fields[key] = {"_name": "%s@%s" % (v.name, step[1])}
                return v.fields[key]
            raise Unsupported("downcast on %r" % (v,))
        if step[0] == "i":
            if isinstance(v, Sym):
                key = "i:" + step[1]
                if key not in v.fields:
                    v.fields[key] = Sym("?", "%s[%s]" % (v.name, step[1]))
                return v.fields[key]
            if isinstance(v, Agg):
                try:
                    return v.fields[int(step[1])]
                except Exception:
                    raise Unsupported("index")
        raise Unsupported("projection %r on %r" % (step, v))

    def write(self, st, obj, path, val):
        if not path:
            obj.value = val
            return
        v = obj.value
        if v is None:
            v = obj.value = Sym("?", obj.name)
        for step in path[:-1]:
            v = self.project(v, step)
        last = path[-1]
        if last[0] == "f":
            k = last[1]
            if isinstance(v, Agg):
                while len(v.fields) <= k:
                    v.fields.append(None)
                v.fields[k] = val
            elif isinstance(v, Sym):
                v.fields[k] = val
            elif isinstance(v, dict):
                v[k] = val
            else:
                raise Unsupported("write field into %r" % (v,))
        elif last[0] == "v":
            raise Unsupported("write to a bare downcast")
        else:
            if isinstance(v, Sym):
                v.fields["i:" + last[1]] = val
            else:
                raise Unsupported("write index")

    # ------------------------------------------------------------ operands / rvalues
    def const(self, text, ty_hint):
        t = text.strip()
        m = re.match(r"^(-?\d+)_(\w+)$", t)
        if m and m.group(2) in INT_BITS:
            return z3.BitVecVal(int(m.group(1)), INT_BITS[m.group(2)])
        if t == "true":
            return z3.BoolVal(True)
        if t == "false":
            return z3.BoolVal(False)
        if t == "()":
            return UNIT
        m = re.match(r"^ZeroSized: (.*)$", t)
        if m:
            ty = m.group(1)
            if ty.startswith("{closure@"):
                return Agg(ty, [], "closure")
            return Agg(ty, [], "zst")
        # named constant with a body in the dump
        f = self.cfg.fns.get("const " + t) or self.cfg.fns.get("const " + t.split("::")[-1])
        if f is not None and not t.startswith("std::") and not t.startswith("core::"):
            return self.eval_const(f)
        m = re.match(r"^core::num::<impl (\w+)>::MAX$", t)
        if m and m.group(1) in INT_BITS:
            b = INT_BITS[m.group(1)]
            return z3.BitVecVal((1 << (b - 1)) - 1 if m.group(1) in SIGNED else (1 << b) - 1, b)
        if t.startswith('"') or t.startswith('b"'):
            return Sym("&str", "str:" + t[:30])
        # a constant enum value, e.g. `Result::<Infallible, E>::Err(E)` or `PostAction::Continue`
        mm = re.match(r"^(.*?)(\(.*\))?$", t, flags=re.S)
        head = mm.group(1)
        e = self.maybe_enum(head, ty_hint, [Sym("?", "constarg")] if mm.group(2) else [], None)
        if isinstance(e, Enum):
            return e
        s = Sym(ty_hint or "?", "const:" + t[:60])
        s.tags["const"] = t
        return s

    def eval_const(self, f):
        if hasattr(f, "_value"):
            return f._value
        if hasattr(f, "inline_const"):
            f._value = self.const(f.inline_const, f.ret)
            return f._value
        sub = Executor(self.cfg)
        paths = sub.run_fn(f, [], top=True)
        ps = [p for p in paths if p.status == "return"]
        if len(ps) != 1:
            raise Unsupported("constant %s does not evaluate to one value" % f.name)
        f._value = ps[0].ret
        return f._value

    def operand(self, st, fr, op, ty_hint=None):
        k = op[0]
        if k in ("copy", "move"):
            o, p = self.resolve(st, fr, op[1])
            th = ty_hint
            if op[1][0] == "local":
                th = fr.fn.locals.get(op[1][1], ty_hint)
            v = self.read(st, o, p, th)
            if isinstance(v, dict):
                raise Unsupported("use of a bare variant payload")
            return v
        if k == "const":
            return self.const(op[1], ty_hint)
        if k == "fnitem":
            return FnItem(op[1])
        raise Unsupported("operand kind " + k)

    def as_bv(self, v, bits=None):
        if z3.is_bv(v):
            return v
        if z3.is_bool(v):
            return z3.If(v, z3.BitVecVal(1, bits or 8), z3.BitVecVal(0, bits or 8))
        if isinstance(v, int):
            return z3.BitVecVal(v, bits or 64)
        if z3.is_int(v):
            return z3.Int2BV(v, bits or 64)
        raise Unsupported("not an integer: %r" % (v,))

    def binop(self, op, a, b, signed):
        if op in ("Eq", "Ne") and not (z3.is_expr(a) and z3.is_expr(b)):
            raise Unsupported("comparison of non-scalars")
        if z3.is_bool(a) and z3.is_bool(b):
            if op == "Eq":
                return a == b
            if op == "Ne":
                return a != b
            if op == "BitAnd":
                return z3.And(a, b)
            if op == "BitOr":
                return z3.Or(a, b)
            if op == "BitXor":
                return z3.Xor(a, b)
        a = self.as_bv(a)
        b = self.as_bv(b, a.size())
        if b.size() != a.size():
            b = z3.ZeroExt(a.size() - b.size(), b) if b.size() < a.size() else z3.Extract(a.size() - 1, 0, b)
        n = a.size()
        if op == "Eq":
            return a == b
        if op == "Ne":
            return a != b
        if op == "Lt":
            return a < b if signed else z3.ULT(a, b)
        if op == "Le":
            return a <= b if signed else z3.ULE(a, b)
        if op == "Gt":
            return a > b if signed else z3.UGT(a, b)
        if op == "Ge":
            return a >= b if signed else z3.UGE(a, b)
        if op == "BitAnd":
            return a & b
        if op == "BitOr":
            return a | b
        if op == "BitXor":
            return a ^ b
        if op in ("Shl", "ShlUnchecked"):
            return a << b
        if op in ("Shr", "ShrUnchecked"):
            return (a >> b) if signed else z3.LShR(a, b)
        if op in ("Add", "AddUnchecked"):
            return a + b
        if op in ("Sub", "SubUnchecked"):
            return a - b
        if op in ("Mul", "MulUnchecked"):
            return a * b
        if op == "Div":
            return a / b if signed else z3.UDiv(a, b)
        if op == "Rem":
            return z3.SRem(a, b) if signed else z3.URem(a, b)
        if op in ("AddWithOverflow", "SubWithOverflow", "MulWithOverflow"):
            if op[0] == "A":
                r = a + b
                ov = z3.Not(z3.BVAddNoOverflow(a, b, signed)) if not signed else \
                    z3.Or(z3.Not(z3.BVAddNoOverflow(a, b, True)), z3.Not(z3.BVAddNoUnderflow(a, b)))
            elif op[0] == "S":
                r = a - b
                ov = z3.Not(z3.BVSubNoUnderflow(a, b, signed)) if not signed else \
                    z3.Or(z3.Not(z3.BVSubNoOverflow(a, b)), z3.Not(z3.BVSubNoUnderflow(a, b, True)))
            else:
                r = a * b
                ov = z3.Not(z3.BVMulNoOverflow(a, b, signed))
            return Agg("(int,bool)", [r, ov], "ovf")
        raise Unsupported("binop " + op)

    def rvalue(self, st, fr, rv, dest_ty):
        k = rv[0]
        if k == "use":
            return self.operand(st, fr, rv[1], dest_ty)
        if k == "ref":
            o, p = self.resolve(st, fr, rv[2])
            # a reference to a bare variant payload never occurs; to `(x as V).0` it does
            return Ref(o, p, mut=("mut" in rv[1]))
        if k == "discr":
            o, p = self.resolve(st, fr, rv[1])
            v = self.read(st, o, p, None)
            if isinstance(v, Enum):
                return v.disc
            if isinstance(v, Sym):
                if "disc" not in v.tags:
                    v.tags["disc"] = z3.Int("d_%s_%d" % (re.sub(r"\W", "_", v.name)[-30:], v.id))
                return v.tags["disc"]
            raise Unsupported("discriminant of %r" % (v,))
        if k == "cast":
            v = self.operand(st, fr, rv[1])
            kind, ty = rv[3], rv[2].strip()
            if kind == "IntToInt":
                if ty in INT_BITS:
                    bits = INT_BITS[ty]
                    if z3.is_int(v):     # a discriminant
                        return z3.Int2BV(v, bits)
                    if isinstance(v, int):
                        return z3.BitVecVal(v, bits)
                    v = self.as_bv(v, bits)
                    if v.size() == bits:
                        return v
                    if v.size() > bits:
                        return z3.Extract(bits - 1, 0, v)
                    src_signed = False
                    if rv[1][0] in ("copy", "move") and rv[1][1][0] == "local":
                        src_signed = fr.fn.locals.get(rv[1][1][1], "") in SIGNED
                    return z3.SignExt(bits - v.size(), v) if src_signed else z3.ZeroExt(bits - v.size(), v)
                raise Unsupported("IntToInt to " + ty)
            return v   # pointer coercions, unsizing, transmute of opaque values: identity
        if k == "binop":
            a = self.operand(st, fr, rv[2])
            b = self.operand(st, fr, rv[3])
            signed = False
            if rv[2][0] in ("copy", "move") and rv[2][1][0] == "local":
                signed = fr.fn.locals.get(rv[2][1][1], "") in SIGNED
            return self.binop(rv[1], a, b, signed)
        if k == "unop":
            a = self.operand(st, fr, rv[2])
            if rv[1] == "Not":
                return z3.Not(a) if z3.is_bool(a) else ~self.as_bv(a)
            return -self.as_bv(a)
        if k == "agg":
            kind, name, parts = rv[1], rv[2], rv[3]
            if kind == "tuple":
                return Agg(dest_ty, [self.operand(st, fr, p) for p in parts], "tup")
            if kind in ("array", "array_repeat"):
                return Agg(dest_ty, [self.operand(st, fr, p) for p in parts], "arr")
            if kind == "struct":
                vals = [self.operand(st, fr, p) for _, p in parts]
                a = Agg(name, vals, short_ty(name))
                a.field_names = [n for n, _ in parts]
                # enum struct-variant?  Name::Variant { .. }
                return self.maybe_enum(name, dest_ty, vals, a)
            if kind == "ctor":
                vals = [self.operand(st, fr, p) for p in parts]
                return self.maybe_enum(name, dest_ty, vals, None)
        raise Unsupported("rvalue kind " + k)

    def maybe_enum(self, name, dest_ty, vals, struct_agg):
        """`Option::<T>::Some(x)`, `PostAction::Continue`, `Oneshot`, `TokenInner { .. }`, `Token(x)`"""
        path = re.sub(r"::<[^>]*(?:<[^>]*>[^>]*)*>", "", name)     # drop turbofish
        segs = [s for s in path.split("::") if s]
        vname = segs[-1] if segs else name
        for ty_try in (dest_ty, "::".join(segs[:-1])):
            base = enum_base(ty_try or "")
            vs = self.cfg.enums.get(base)
            if vs and vname in vs:
                pl = {i: v for i, v in enumerate(vals)}
                pl["_name"] = vname
                return Enum(dest_ty or base, vs.index(vname), {vname: pl}, vname)
        if struct_agg is not None:
            return struct_agg
        return Agg(dest_ty or name, vals, vname)

    # ------------------------------------------------------------ events / guards
    def event(self, st, kind, callee, args, ret=None):
        ev = Event(len(st.trace), kind, callee, args, ret,
                   [(gid,) + tuple(g) for gid, g in st.guards.items()], st.frames[-1].fn.short() if st.frames else "")
        st.trace.append(ev)
        return ev

    def collect_guards(self, v, out, seen=None):
        seen = seen if seen is not None else set()
        if id(v) in seen:
            return
        seen.add(id(v))
        if isinstance(v, Sym):
            if v.tags.get("guard"):
                out.append(v)
            for x in v.fields.values():
                self.collect_guards(x, out, seen)
        elif isinstance(v, Agg):
            for x in v.fields:
                self.collect_guards(x, out, seen)
        elif isinstance(v, Enum):
            for pl in v.payloads.values():
                self.collect_guards(pl, out, seen)
        elif isinstance(v, dict):
            for k, x in v.items():
                if k != "_name":
                    self.collect_guards(x, out, seen)

    def drop_types(self):
        """base names of the crate's types that have a Drop impl in the dump"""
        if not hasattr(self.cfg, "_drop_types"):
            ts = set()
            for f in self.cfg.fns.values():
                m = re.search(r"::drop\(_1: &mut ([\w:]+)", f.header)
                if m:
                    ts.add(m.group(1).split("::")[-1])
            self.cfg._drop_types = ts
        return self.cfg._drop_types

    def do_drop(self, st, fr, place):
        o, p = self.resolve(st, fr, place)
        v = self.read(st, o, p, fr.fn.locals.get(place[1]) if place[0] == "local" else None)
        gs = []
        self.collect_guards(v, gs)
        for g in gs:
            if g.id in st.guards:
                info = st.guards.pop(g.id)
                self.event(st, "guard_drop", info[0], [g])
        if isinstance(v, (Sym, Enum, Agg)) and not gs:
            ty = getattr(v, "ty", "")
            if re.search(r"Rc<|Arc<|Box<|dyn |Sender|Ping|Runnable|Waker|Vec<", ty or "") or \
               enum_base(ty or "") in self.drop_types():
                self.event(st, "drop", short_ty(ty), [v])

    # ------------------------------------------------------------ running
    def run_fn(self, fn, args, top=False, st=None):
        """execute `fn` from `args` (list of values; missing ones are made symbolic).
        Returns finished State objects (top) ."""
        parse_body(fn)
        st = st or State()
        fr = Frame(fn, len(st.frames))
        st.frames.append(fr)
        for i, (loc, ty) in enumerate(fn.params):
            v = args[i] if i < len(args) and args[i] is not None else self.fresh(ty, "a%d" % (i + 1))
            self.local_obj(fr, loc).value = v
        self.paths = []
        work = [(st, "bb0")]
        out = []
        while work:
            s, bb = work.pop()
            if len(out) + len(work) > self.cfg.max_paths:
                raise Unsupported("path budget exceeded in %s" % fn.short())
            for s2, nxt in self.step_block(s, bb):
                if nxt is None:
                    out.append(s2)
                else:
                    work.append((s2, nxt))
        return out

    def finish(self, st, status, ret=None):
        st.status = status
        st.ret = ret
        return [(st, None)]

    def step_block(self, st, bbname):
        """execute one basic block; returns [(state, next block or None)]"""
        fr = st.frames[-1]
        fn = fr.fn
        blk = fn.blocks.get(bbname)
        if blk is None:
            raise Unsupported("missing block %s in %s" % (bbname, fn.short()))
        if bbname in loop_heads(fn):
            n = fr.visits.get(bbname, 0) + 1
            fr.visits[bbname] = n
            if n == 1 and (fn.short(), bbname) in getattr(self.cfg, "havoc_heads", ()):
                # the iteration starts from an ARBITRARY state of everything an earlier iteration may have changed
                for loc in sorted(loop_carried_locals(fn, bbname)):
                    o = fr.locals.get(loc)
                    if o is not None and o.value is not None and loc != "_0":
                        o.value = self.fresh(fn.locals.get(loc), "lc%s" % loc)
                self.event(st, "havoc_loop_state", bbname, [])
            bound = self.cfg.loop_bounds.get((fn.short(), bbname), self.cfg.unroll)
            if n > bound + 1:
                if (fn.short(), bbname) in getattr(self.cfg, "exit_heads", ()) and blk.term and blk.term[0] == "call" \
                        and blk.term[2].endswith("::next"):
                    # bounded unwinding with the loop-exit assumption: the iterator is exhausted on this visit
                    fr.force_none = True
                else:
                    return self.ret_from(st, "cut", None, cut=bbname)
        for stt in blk.stmts:
            if stt[0] == "assign":
                dest = stt[1]
                dty = fn.locals.get(dest[1]) if dest[0] == "local" else (dest[3] if dest[0] == "field" else None)
                val = self.rvalue(st, fr, stt[2], dty)
                o, p = self.resolve(st, fr, dest)
                self.write(st, o, p, val)
            elif stt[0] == "setdiscr":
                o, p = self.resolve(st, fr, stt[1])
                v = self.read(st, o, p, None)
                if isinstance(v, Enum):
                    v.disc = stt[2]
                else:
                    raise Unsupported("SetDiscriminant on %r" % (v,))
        t = blk.term
        if t is None:
            raise Unsupported("block without terminator %s in %s" % (bbname, fn.short()))
        k = t[0]
        if k == "goto":
            return [(st, t[1])]
        if k == "return":
            o = self.local_obj(fr, "_0")
            rv = o.value if o.value is not None else UNIT
            return self.ret_from(st, "return", rv)
        if k == "unreachable":
            return self.finish(st, "unreachable")
        if k == "resume":
            return self.finish(st, "panic")
        if k == "drop":
            self.do_drop(st, fr, t[1])
            return [(st, t[2]["return"])]
        if k == "assert":
            c = self.operand(st, fr, t[1])
            cond = z3.Not(c) if t[2] else c
            outs = []
            cond = z3.simplify(cond)
            if z3.is_true(cond):
                return [(st, t[4]["success"])]
            if z3.is_false(cond):
                self.event(st, "panic", "assert:" + t[3][:60], [])
                return self.finish(st, "panic")
            if self.feasible(st, z3.Not(cond)):
                s2 = st.clone()
                s2.pc.append(z3.Not(cond))
                self.event(s2, "panic", "assert:" + t[3][:60], [])
                outs += self.finish(s2, "panic")
            if self.feasible(st, cond):
                st.pc.append(cond)
                outs.append((st, t[4]["success"]))
            return outs
        if k == "switch":
            v = self.operand(st, fr, t[1])
            return self.do_switch(st, v, t[2])
        if k == "call":
            if getattr(fr, "force_none", False):
                fr.force_none = False
                outs = []
                for s2, nxt in self.do_call(st, fr, t):
                    if nxt is None or s2.frames[-1].fn is not fn:
                        raise Unsupported("loop-exit assumption on an inlined or diverging next()")
                    o, p_ = self.resolve(s2, s2.frames[-1], t[1])
                    v = self.read(s2, o, p_, None)
                    if not isinstance(v, Enum):
                        raise Unsupported("loop-exit assumption: next() did not give an Option")
                    if isinstance(v.disc, int):
                        if v.disc == 0:
                            outs.append((s2, nxt))
                        continue
                    c = v.disc == 0
                    if self.feasible(s2, c):
                        s2.pc.append(c)
                        outs.append((s2, nxt))
                return outs
            return self.do_call(st, fr, t)
        raise Unsupported("terminator " + k)

    def do_switch(self, st, v, targets):
        if isinstance(v, int):
            for key, bb in targets:
                if key != "otherwise" and int(key) == v:
                    return [(st, bb)]
            return [(st, dict(targets)["otherwise"])]
        if z3.is_bool(v):
            v = z3.If(v, z3.IntVal(1), z3.IntVal(0))
        if z3.is_bv(v):
            mk = lambda key: v == z3.BitVecVal(int(key), v.size())
        else:
            mk = lambda key: v == z3.IntVal(int(key))
        sv = z3.simplify(v)
        if z3.is_int_value(sv) or z3.is_bv_value(sv):
            c = sv.as_long()
            for key, bb in targets:
                if key != "otherwise" and int(key) == c:
                    return [(st, bb)]
            return [(st, dict(targets)["otherwise"])]
        outs = []
        conds = []
        fn = st.frames[-1].fn
        for key, bb in targets:
            if key == "otherwise":
                c = z3.And([z3.Not(x) for x in conds]) if conds else z3.BoolVal(True)
            else:
                c = mk(key)
                conds.append(c)
            tb = fn.blocks.get(bb)
            if tb is not None and tb.term and tb.term[0] == "unreachable" and not tb.stmts:
                continue
            if self.feasible(st, c):
                outs.append((c, bb))
        res = []
        for i, (c, bb) in enumerate(outs):
            s2 = st if i == len(outs) - 1 else st.clone()
            s2.pc.append(c)
            res.append((s2, bb))
        return res

    def ret_from(self, st, status, rv, cut=None):
        """return from the current frame; at top level the path ends"""
        fr = st.frames[-1]
        if len(st.frames) == 1 or status != "return":
            st.status = status if cut is None else "cut:" + cut
            st.ret = rv
            return [(st, None)]
        st.frames.pop()
        caller = st.frames[-1]
        dest, nxt = fr.cont
        o, p = self.resolve(st, caller, dest)
        self.write(st, o, p, rv)
        if nxt is None:
            return self.finish(st, "panic")
        return [(st, nxt)]

    # ------------------------------------------------------------ calls
    def do_call(self, st, fr, t):
        _, dest, callee, ops, targets = t
        args = [self.operand(st, fr, a) for a in ops]
        nxt = targets.get("return")
        dty = fr.fn.locals.get(dest[1]) if dest[0] == "local" else None
        # 1. semantic handlers
        for rx, h in self.cfg.handlers + HANDLERS:
            if re.search(rx, callee):
                res = h(self, st, fr, callee, args, dty)
                if res is None:
                    continue
                outs = []
                for s2, val in res:
                    if val is PANIC or nxt is None:
                        outs += self.finish(s2, "panic")
                        continue
                    f2 = s2.frames[-1]
                    o, p = self.resolve(s2, f2, dest)
                    self.write(s2, o, p, val)
                    outs.append((s2, nxt))
                return outs
        # 2. inlining
        target = self.resolve_callee(callee, args)
        if target is not None and len(st.frames) < self.cfg.max_depth:
            parse_body(target)
            nf = Frame(target, len(st.frames))
            nf.cont = (dest, nxt)
            st.frames.append(nf)
            for i, (loc, ty) in enumerate(target.params):
                self.local_obj(nf, loc).value = args[i] if i < len(args) else self.fresh(ty, "a%d" % i)
            return [(st, "bb0")]
        # 3. opaque event
        self.cfg.opaque[callee] = self.cfg.opaque.get(callee, 0) + 1
        ret = self.fresh(dty, "r%d" % len(st.trace)) if nxt is not None else None
        ev = self.event(st, "call", callee, args, ret)
        self.havoc_mut_refs(st, args, len(st.trace))
        if nxt is None:
            ev.kind = "panic" if re.search(r"panic|unwrap_failed|expect_failed|unreachable|begin_panic", callee) else "diverge"
            return self.finish(st, "panic")
        o, p = self.resolve(st, fr, dest)
        self.write(st, o, p, ret)
        return [(st, nxt)]

    def havoc_mut_refs(self, st, args, tag):
        """an opaque callee may write through every `&mut` it receives (directly or captured in a
        closure environment): forget what is known about those locations, if they hold scalars or
        enums (structured symbolic objects are already unconstrained)"""
        seen = set()

        def visit(v, depth=0):
            if id(v) in seen or depth > 4:
                return
            seen.add(id(v))
            if isinstance(v, Ref):
                if v.mut:
                    try:
                        cur = self.read(st, v.obj, v.path, None)
                    except Unsupported:
                        return
                    if z3.is_bool(cur):
                        self.write(st, v.obj, v.path, z3.Bool("b_havoc_%d_%d" % (tag, next(_ids))))
                    elif z3.is_bv(cur):
                        self.write(st, v.obj, v.path, z3.BitVec("i_havoc_%d_%d" % (tag, next(_ids)), cur.size()))
                    elif isinstance(cur, Enum):
                        self.write(st, v.obj, v.path, Enum(cur.ty, z3.Int("d_havoc_%d_%d" % (tag, next(_ids))), {}, "havoc%d" % tag))
                    elif isinstance(cur, Agg):
                        if (cur.ty or "").startswith("["):
                            self.write(st, v.obj, v.path, Sym(cur.ty, "havoc%d" % tag))
                        else:
                            for x in cur.fields:
                                visit(x, depth + 1)
            elif isinstance(v, Agg):
                for x in v.fields:
                    visit(x, depth + 1)

        for a in args:
            visit(a)

    def resolve_callee(self, callee, args):
        for rx, finder in self.cfg.inline:
            if re.search(rx, callee):
                f = finder(self.cfg.fns, callee, args) if callable(finder) else find_fn(self.cfg.fns, finder)
                if f is not None:
                    return f
        return self.auto_inline_target(callee, args)

    def auto_inline_target(self, callee, args):
        """helper functions that did not exist when the obligations were written (not in mirsym/baseline_fns.txt) are
        executed inline instead of being treated as opaque events, so that moving code into a new private helper
        does not hide the events the obligations are about"""
        base = BASELINE_FNS()
        if not base:
            return None
        m = re.search(r"([A-Za-z_][A-Za-z0-9_]*)(::<[^:]*>)?$", callee)
        if not m or callee.startswith("<") and " as " in callee.split(">::")[0] and "dyn " in callee:
            return None
        name = m.group(1)
        idx = getattr(self.cfg, "_by_last", None)
        if idx is None:
            idx = {}
            for f in self.cfg.fns.values():
                if "{closure" in f.name:
                    continue
                idx.setdefault(f.name.rsplit("::", 1)[-1], []).append(f)
            self.cfg._by_last = idx
        cands = [f for f in idx.get(name, []) if f.short() not in base and len(f.params) == len(args)]
        if len(cands) != 1:
            return None
        return cands[0]

    def call_closure(self, st, clos, cargs, dty):
        """call a closure value with a tuple of args; returns [(state, value)] (may fork)"""
        ty = getattr(clos, "ty", "")
        if isinstance(clos, Ref):
            v = self.read(st, clos.obj, clos.path, None)
            ty = getattr(v, "ty", "")
            clos_arg = clos
        else:
            clos_arg = clos
        f = self.cfg.closure_index.get(re.sub(r"^&(mut )?", "", ty or ""))
        if f is None or len(st.frames) >= self.cfg.max_depth:
            ret = self.fresh(dty, "r%d" % len(st.trace))
            kind = "callback" if not (ty or "").startswith("{closure@") else "call"
            self.event(st, kind, "closure:" + short_ty(ty), [clos] + list(cargs), ret)
            return [(st, ret)]
        # run the closure body as a nested top-level execution on a cloned frame stack
        parse_body(f)
        first = clos_arg
        if f.params[0][1].startswith("&") and not isinstance(clos_arg, Ref):
            first = Ref(Obj("closure_env", clos_arg))
        sub = Executor(self.cfg)
        base_depth = len(st.frames)
        nf = Frame(f, base_depth)
        nf.cont = None
        st.frames.append(nf)
        vals = [first] + list(cargs)
        for i, (loc, pty) in enumerate(f.params):
            sub.local_obj(nf, loc).value = vals[i] if i < len(vals) else sub.fresh(pty, "ca%d" % i)
        outs = []
        work = [(st, "bb0")]
        while work:
            s, bb = work.pop()
            for s2, nx in sub.step_block_nested(s, bb, base_depth):
                if nx is None:
                    outs.append(s2)
                else:
                    work.append((s2, nx))
        res = []
        for s2 in outs:
            if s2.status == "return" and len(s2.frames) == base_depth + 1:
                s2.frames.pop()
                rv, s2.status, s2.ret = s2.ret, None, None
                res.append((s2, rv))
            else:
                res.append((s2, PANIC))
        return res

    def step_block_nested(self, st, bb, base_depth):
        """like step_block, but a `return` of the frame at base_depth ends the nested run"""
        fr = st.frames[-1]
        if len(st.frames) == base_depth + 1:
            blk = fr.fn.blocks.get(bb)
            if blk is not None and blk.term and blk.term[0] == "return":
                # execute statements, then stop
                n = fr.visits.get(bb, 0) + 1
                fr.visits[bb] = n
                for stt in blk.stmts:
                    if stt[0] == "assign":
                        dest = stt[1]
                        dty = fr.fn.locals.get(dest[1]) if dest[0] == "local" else (dest[3] if dest[0] == "field" else None)
                        val = self.rvalue(st, fr, stt[2], dty)
                        o, p = self.resolve(st, fr, dest)
                        self.write(st, o, p, val)
                o = self.local_obj(fr, "_0")
                st.status = "return"
                st.ret = o.value if o.value is not None else UNIT
                return [(st, None)]
        return self.step_block(st, bb)


PANIC = object()


def successors(blk):
    t = blk.term
    if t is None:
        return []
    k = t[0]
    if k == "goto":
        return [t[1]]
    if k == "switch":
        return [bb for _, bb in t[2]]
    if k == "drop":
        return [t[2]["return"]] if "return" in t[2] else []
    if k == "assert":
        return [t[4]["success"]]
    if k == "call":
        return [t[4]["return"]] if "return" in t[4] else []
    return []


def _root_local(place):
    while isinstance(place, tuple) and place and place[0] != "local":
        nxt = None
        for x in place[1:]:
            if isinstance(x, tuple):
                nxt = x
                break
        if nxt is None:
            return None
        place = nxt
    return place[1] if isinstance(place, tuple) and len(place) > 1 else None


def loop_carried_locals(fn, head):
    """locals that an iteration of the natural loop with this head may leave changed for the next one: assigned in the
    loop body, destination of a call there, or borrowed mutably there"""
    key = ("_carried", head)
    if hasattr(fn, "_carried") and head in fn._carried:
        return fn._carried[head]
    preds = {}
    for n, b in fn.blocks.items():
        for s_ in successors(b):
            preds.setdefault(s_, []).append(n)
    reach, stack = set(), [head]
    while stack:
        n = stack.pop()
        if n in reach or n not in fn.blocks:
            continue
        reach.add(n)
        stack += successors(fn.blocks[n])
    tails = [t for t in preds.get(head, []) if t in reach]
    body, stack = {head}, list(tails)
    while stack:
        n = stack.pop()
        if n in body:
            continue
        body.add(n)
        stack += preds.get(n, [])
    out = set()
    for n in body:
        b = fn.blocks[n]
        for st_ in b.stmts:
            if st_[0] == "assign":
                r = _root_local(st_[1])
                if r:
                    out.add(r)
                rv = st_[2]
                if isinstance(rv, tuple) and rv and rv[0] == "ref" and "mut" in (rv[1] or ""):
                    r2 = _root_local(rv[2])
                    if r2:
                        out.add(r2)
            elif st_[0] == "setdiscr":
                r = _root_local(st_[1])
                if r:
                    out.add(r)
        t = b.term
        if t and t[0] == "call":
            r = _root_local(t[1])
            if r:
                out.add(r)
    if not hasattr(fn, "_carried"):
        fn._carried = {}
    fn._carried[head] = out
    return out


def loop_heads(fn):
    """targets of back edges of the (non-cleanup) CFG"""
    if hasattr(fn, "_heads"):
        return fn._heads
    heads = set()
    color = {}
    stack = [("bb0", iter(successors(fn.blocks["bb0"])))] if "bb0" in fn.blocks else []
    color["bb0"] = 1
    while stack:
        node, it = stack[-1]
        nxt = next(it, None)
        if nxt is None:
            color[node] = 2
            stack.pop()
            continue
        if nxt not in fn.blocks:
            continue
        c = color.get(nxt, 0)
        if c == 1:
            heads.add(nxt)
        elif c == 0:
            color[nxt] = 1
            stack.append((nxt, iter(successors(fn.blocks[nxt]))))
    fn._heads = heads
    return heads


_baseline = {}


def BASELINE_FNS():
    if "v" not in _baseline:
        import os
        pth = os.path.join(os.path.dirname(os.path.abspath(__file__)), "baseline_fns.txt")
        _baseline["v"] = set(l.strip() for l in open(pth)) if os.path.exists(pth) else set()
    return _baseline["v"]


def find_fn(fns, rx):
    hits = [f for f in fns.values() if re.search(rx, f.header)]
    if len(hits) == 1:
        return hits[0]
    if not hits:
        return None
    raise Unsupported("ambiguous function pattern %r: %s" % (rx, [h.name for h in hits][:4]))


# ====================================================================== handlers
# each handler: (executor, state, frame, callee, args, dest type) -> [(state, value)] | None

def _deref(ex, st, fr, callee, args, dty):
    a = args[0]
    v = ex.read(st, a.obj, a.path, None) if isinstance(a, Ref) else a
    if isinstance(v, Ref):
        return [(st, v)]
    if isinstance(v, Sym):
        return [(st, Ref(ex.pointee(v)))]
    if isinstance(v, (Agg, Enum)):
        # Deref of a wrapper we know structurally: hand back a reference to it
        if isinstance(a, Ref):
            return [(st, a)]
    return None


def _identity(ex, st, fr, callee, args, dty):
    return [(st, args[0])]


def _clone(ex, st, fr, callee, args, dty):
    a = args[0]
    v = ex.read(st, a.obj, a.path, None) if isinstance(a, Ref) else a
    if isinstance(v, dict):
        return None
    ex.event(st, "clone", short_ty(getattr(v, "ty", "?")), [v], v)
    return [(st, v)]


def _cell_of(ex, st, a):
    """the RefCell/Cell object a `&RefCell<T>` argument points to -> (Sym, type)"""
    v = ex.read(st, a.obj, a.path, None) if isinstance(a, Ref) else a
    if isinstance(v, Ref):
        v = ex.read(st, v.obj, v.path, None)
    if isinstance(v, Sym) and re.match(r"^&(mut )?", v.ty or ""):
        v = ex.pointee(v).value
    if not isinstance(v, Sym):
        raise Unsupported("RefCell argument is not symbolic: %r" % (v,))
    return v


def _borrow(ex, st, fr, callee, args, dty):
    cell = _cell_of(ex, st, args[0])
    kind = "try_borrow_mut" if "try_borrow_mut" in callee else ("borrow_mut" if "borrow_mut" in callee else
                                                                ("try_borrow" if "try_borrow" in callee else "borrow"))
    inner_ty = dty or ""
    g = Sym(re.sub(r"^.*?Result<(.*), .*$", r"\1", inner_ty) if kind.startswith("try") else inner_ty, "guard%d" % len(st.trace))
    g.tags["guard"] = True
    g.tags["cell"] = cell.id
    g.pointee = ex.pointee(cell)      # the guard derefs to the cell's content
    ev = ex.event(st, "borrow", kind, [cell], g)
    ev.info["cell_ty"] = cell.ty
    ev.info["cell_id"] = cell.id
    ev.info["mut"] = "mut" in kind
    if kind.startswith("try"):
        d = z3.Int("d_try_%d" % next(_ids))
        res = Enum(dty, d, {"Ok": {0: g, "_name": "Ok"}}, "tryborrow")
        outs = []
        # fork: Ok (guard alive) / Err (no guard)
        if ex.feasible(st, d == 0):
            s1, r1 = copy.deepcopy((st, res))
            s1.pc.append(d == 0)
            g1 = r1.payloads["Ok"][0]
            s1.guards[g1.id] = (cell.ty, kind, cell.id)
            s1.trace[-1].info["outcome"] = "Ok"
            outs.append((s1, r1))
        if ex.feasible(st, d == 1):
            s2 = st
            s2.pc.append(d == 1)
            s2.trace[-1].info["outcome"] = "Err"
            outs.append((s2, Enum(dty, d, {}, "tryborrow_err")))
        return outs
    st.guards[g.id] = (cell.ty, kind, cell.id)
    return [(st, g)]


def _cell_op(ex, st, fr, callee, args, dty):
    cell = _cell_of(ex, st, args[0])
    op = re.search(r"::(replace|set|get|take)$", callee).group(1)
    ret = ex.fresh(dty, "cell%d" % len(st.trace))
    ev = ex.event(st, "cell", op, [cell] + args[1:], ret)
    ev.info["cell_ty"] = cell.ty
    ev.info["cell_id"] = cell.id
    return [(st, ret)]


def _disc_fork(ex, st, val, n, extra=None):
    """fork on the discriminant of an Enum value into n cases -> [(state, value, idx)]
    (with `extra`: [(state, value, idx, extra')], extra copied along with the state)"""
    if extra is not None:
        res = []
        for s2, pack, i in _disc_fork(ex, st, _Pack(val, extra), n):
            res.append((s2, pack.val, i, pack.extra))
        return res
    d = val.disc
    if isinstance(d, int):
        return [(st, val, d)]
    outs = []
    cases = [i for i in range(n) if ex.feasible(st, d == i)]
    for j, i in enumerate(cases):
        # state and value are copied TOGETHER so that the value stays the object inside the copy
        s2, v2 = (st, val) if j == len(cases) - 1 else copy.deepcopy((st, val))
        s2.pc.append(d == i)
        outs.append((s2, v2, i))
    return outs


class _Pack:
    def __init__(self, val, extra):
        self.val, self.extra = val, extra

    @property
    def disc(self):
        return self.val.disc


def generic_args(ty):
    from .mir_parse import split_top
    t = (ty or "").strip()
    i = t.find("<")
    if i < 0 or not t.endswith(">"):
        return []
    return split_top(t[i + 1:-1])


def payload_type(ty, vname, k=0):
    base = enum_base(ty)
    ga = [g for g in generic_args(ty) if not g.startswith("'")]
    try:
        if base == "Option" and vname == "Some":
            return ga[0]
        if base == "Result":
            return ga[0] if vname == "Ok" else ga[1]
        if base == "ControlFlow":
            return ga[1] if vname == "Continue" else ga[0]
        if base == "Poll" and vname == "Ready":
            return ga[0]
    except IndexError:
        pass
    return "?"


def disc_of(v):
    """discriminant (int or z3 Int) of an enum-like value"""
    if isinstance(v, Enum):
        return v.disc
    if isinstance(v, Sym):
        if "disc" not in v.tags:
            v.tags["disc"] = z3.Int("d_%s_%d" % (re.sub(r"\W", "_", v.name)[-30:], v.id))
        return v.tags["disc"]
    raise Unsupported("no discriminant: %r" % (v,))


def _payload(ex, val, vname, k, ty=None):
    pl = val.payloads.setdefault(vname, {"_name": "%s@%s" % (val.name, vname)})
    if ty is None:
        ty = payload_type(val.ty, vname, k)
    if k not in pl:
        pl[k] = ex.fresh(ty, "%s.%d" % (pl["_name"], k))
    return pl[k]


def _as_enum(ex, st, v):
    if isinstance(v, Ref):
        v = ex.read(st, v.obj, v.path, None)
    if not isinstance(v, Enum):
        raise Unsupported("expected an enum value, got %r" % (v,))
    return v


def _mk(ex, ty, base, vname, vals):
    vs = ex.cfg.enums[base]
    pl = {i: v for i, v in enumerate(vals)}
    pl["_name"] = vname
    return Enum(ty or base, vs.index(vname), {vname: pl}, vname)


def _try_branch(ex, st, fr, callee, args, dty):
    x = _as_enum(ex, st, args[0])
    base = enum_base(x.ty)
    outs = []
    for s2, v, i in _disc_fork(ex, st, x, 2):
        if base == "Option":
            if i == 1:
                outs.append((s2, _mk(ex, dty, "ControlFlow", "Continue", [_payload(ex, v, "Some", 0)])))
            else:
                outs.append((s2, _mk(ex, dty, "ControlFlow", "Break", [_mk(ex, "Option<Infallible>", "Option", "None", [])])))
        else:
            if i == 0:
                outs.append((s2, _mk(ex, dty, "ControlFlow", "Continue", [_payload(ex, v, "Ok", 0)])))
            else:
                outs.append((s2, _mk(ex, dty, "ControlFlow", "Break",
                                     [_mk(ex, "Result<Infallible, E>", "Result", "Err", [_payload(ex, v, "Err", 0)])])))
    return outs


def _from_residual(ex, st, fr, callee, args, dty):
    x = _as_enum(ex, st, args[0])
    base = enum_base(dty or "")
    if base == "Option":
        return [(st, _mk(ex, dty, "Option", "None", []))]
    if base == "Poll":
        inner = _mk(ex, "Result", "Result", "Err", [_payload(ex, x, "Err", 0)])
        return [(st, _mk(ex, dty, "Poll", "Ready", [inner]))]
    e = _payload(ex, x, "Err", 0)
    ex.event(st, "conv", "from_residual", [e])
    return [(st, _mk(ex, dty, "Result", "Err", [e]))]


def _opt_res_simple(ex, st, fr, callee, args, dty):
    m = re.search(r"(?:Option|Result)::<.*>::(\w+)(?:::<.*>)?$", callee) or re.search(r"::(\w+)$", callee)
    meth = m.group(1)
    x = _as_enum(ex, st, args[0])
    base = enum_base(x.ty)
    is_opt = base == "Option"
    some, none = ("Some", "None") if is_opt else ("Ok", "Err")
    some_i = ex.cfg.enums[base].index(some)
    outs = []
    if meth in ("is_some", "is_ok"):
        d = x.disc
        return [(st, (z3.BoolVal(d == some_i) if isinstance(d, int) else d == some_i))]
    if meth in ("is_none", "is_err"):
        d = x.disc
        return [(st, (z3.BoolVal(d != some_i) if isinstance(d, int) else d == (1 - some_i)))]
    for s2, v, i, args in _disc_fork(ex, st, x, 2, extra=list(args)):
        hit = i == some_i
        if meth == "ok":
            outs.append((s2, _mk(ex, dty, "Option", "Some", [_payload(ex, v, "Ok", 0)]) if hit else _mk(ex, dty, "Option", "None", [])))
        elif meth == "err":
            outs.append((s2, _mk(ex, dty, "Option", "None", []) if hit else _mk(ex, dty, "Option", "Some", [_payload(ex, v, "Err", 0)])))
        elif meth in ("unwrap", "expect", "unwrap_unchecked"):
            if hit:
                outs.append((s2, _payload(ex, v, some, 0)))
            else:
                ex.event(s2, "panic", "unwrap_on_" + none, [])
                outs.append((s2, PANIC))
        elif meth == "unwrap_or":
            outs.append((s2, _payload(ex, v, some, 0) if hit else args[1]))
        elif meth == "unwrap_or_default":
            outs.append((s2, _payload(ex, v, some, 0) if hit else ex.fresh(dty, "default")))
        elif meth == "ok_or":
            outs.append((s2, _mk(ex, dty, "Result", "Ok", [_payload(ex, v, "Some", 0)]) if hit else _mk(ex, dty, "Result", "Err", [args[1]])))
        elif meth == "or":
            outs.append((s2, v if hit else args[1]))
        elif meth in ("as_ref", "as_mut", "as_deref", "as_deref_mut"):
            outs.append((s2, v))     # aliasing view: references into the payload are the payload itself
        elif meth in ("map", "map_err", "and_then", "unwrap_or_else", "map_or", "filter", "or_else", "is_some_and", "inspect"):
            clos = args[-1]
            if meth == "map_err":
                apply = not hit
                pv = _payload(ex, v, "Err", 0) if apply else None
            else:
                apply = hit if meth not in ("unwrap_or_else", "or_else") else not hit
                pv = _payload(ex, v, some, 0) if hit else None
            if not apply:
                if meth in ("map", "and_then", "filter"):
                    outs.append((s2, v if not is_opt else _mk(ex, dty, "Option", "None", [])) if is_opt else
                                (s2, _mk(ex, dty, "Result", "Err", [_payload(ex, v, "Err", 0)])))
                elif meth == "map_err":
                    outs.append((s2, _mk(ex, dty, "Result", "Ok", [_payload(ex, v, "Ok", 0)])))
                elif meth == "unwrap_or_else":
                    outs.append((s2, pv))
                elif meth == "or_else":
                    outs.append((s2, v))
                elif meth == "is_some_and":
                    outs.append((s2, z3.BoolVal(False)))
                elif meth == "map_or":
                    outs.append((s2, args[1]))
                else:
                    outs.append((s2, v))
                continue
            cargs = [pv] if meth not in ("unwrap_or_else", "or_else") or not is_opt else []
            if meth in ("unwrap_or_else", "or_else") and not is_opt:
                cargs = [_payload(ex, v, "Err", 0)]
            if meth == "filter":
                cargs = [Ref(Obj("filt", pv))]
                pass
            inner_ty = None
            for s3, rv in ex.call_closure_or_fn(s2, clos, cargs, None):
                if rv is PANIC:
                    outs.append((s3, PANIC))
                elif meth == "map":
                    outs.append((s3, _mk(ex, dty, base, some, [rv])))
                elif meth == "map_err":
                    outs.append((s3, _mk(ex, dty, "Result", "Err", [rv])))
                elif meth in ("and_then", "unwrap_or_else", "or_else", "is_some_and", "map_or"):
                    outs.append((s3, rv))
                elif meth == "inspect":
                    outs.append((s3, v))
                elif meth == "filter":
                    if not z3.is_bool(rv):
                        raise Unsupported("Option::filter predicate is not a bool")
                    outs.append((s3, Enum(dty or v.ty, z3.If(rv, z3.IntVal(1), z3.IntVal(0)), {"Some": {0: pv, "_name": "Some"}}, "filtered")))
        elif meth == "take":
            raise Unsupported("take handled elsewhere")
        else:
            return None
    return outs


def _opt_take(ex, st, fr, callee, args, dty):
    a = args[0]
    if isinstance(a, Sym) and re.match(r"^(&|\*)", a.ty or ""):
        a = Ref(ex.pointee(a))
    if not isinstance(a, Ref):
        return None
    v = ex.read(st, a.obj, a.path, None)
    if not isinstance(v, Enum):
        return None
    ex.write(st, a.obj, a.path, _mk(ex, v.ty, "Option", "None", []))
    ex.event(st, "take", short_ty(v.ty), [a], v)
    return [(st, v)]


def _opt_replace(ex, st, fr, callee, args, dty):
    """Option::replace(&mut self, v) -> old: self becomes Some(v)"""
    a = args[0]
    if isinstance(a, Sym) and re.match(r"^(&|\*)", a.ty or ""):
        a = Ref(ex.pointee(a))
    if not isinstance(a, Ref):
        return None
    v = ex.read(st, a.obj, a.path, None)
    if not isinstance(v, Enum):
        return None
    ex.write(st, a.obj, a.path, _mk(ex, v.ty, "Option", "Some", [args[1]]))
    ex.event(st, "opt_replace", short_ty(v.ty), [a, args[1]], v)
    return [(st, v)]


def _opt_get_or_insert(ex, st, fr, callee, args, dty):
    """Option::get_or_insert(&mut self, v): None => Some(v); Some(_) => unchanged (v dropped)"""
    a = args[0]
    if isinstance(a, Sym) and re.match(r"^(&|\*)", a.ty or ""):
        a = Ref(ex.pointee(a))
    if not isinstance(a, Ref):
        return None
    v = ex.read(st, a.obj, a.path, None)
    if not isinstance(v, Enum):
        return None
    outs = []
    cases = [(0, None), (1, None)]
    if isinstance(v.disc, int):
        cases = [(v.disc, None)]
    for i, (d, _) in enumerate(cases):
        c = None if isinstance(v.disc, int) else (v.disc == d)
        if c is not None and not ex.feasible(st, c):
            continue
        s2, a2, val2 = (st, a, args[1]) if i == len(cases) - 1 else copy.deepcopy((st, a, args[1]))
        if c is not None:
            s2.pc.append(c)
        if d == 0:
            ex.write(s2, a2.obj, a2.path, _mk(ex, v.ty, "Option", "Some", [val2]))
        ex.event(s2, "get_or_insert", "was_none" if d == 0 else "was_some", [a2, val2])
        outs.append((s2, ex.fresh(dty, "r%d" % len(s2.trace))))
    return outs


def _mem_take(ex, st, fr, callee, args, dty):
    a = args[0]
    if isinstance(a, Sym) and re.match(r"^(&|\*)", a.ty or ""):
        a = Ref(ex.pointee(a))
    if not isinstance(a, Ref):
        return None
    v = ex.read(st, a.obj, a.path, dty)
    if isinstance(v, dict):
        return None
    new = ex.fresh(dty, "taken_default")
    ex.write(st, a.obj, a.path, new)
    ev = ex.event(st, "mem_take", short_ty(dty or "?"), [a], v)
    return [(st, v)]


def _mem_replace(ex, st, fr, callee, args, dty):
    a = args[0]
    if isinstance(a, Sym) and re.match(r"^(&|\*)", a.ty or ""):
        a = Ref(ex.pointee(a))
    if not isinstance(a, Ref):
        return None
    v = ex.read(st, a.obj, a.path, dty)
    if isinstance(v, dict):
        return None
    ex.write(st, a.obj, a.path, args[1])
    return [(st, v)]


def _mem_forget(ex, st, fr, callee, args, dty):
    ex.event(st, "forget", "mem::forget", args)
    return [(st, UNIT)]


def _drop_fn(ex, st, fr, callee, args, dty):
    gs = []
    ex.collect_guards(args[0], gs)
    for g in gs:
        if g.id in st.guards:
            info = st.guards.pop(g.id)
            ex.event(st, "guard_drop", info[0], [g])
    if not gs:
        ex.event(st, "drop", short_ty(getattr(args[0], "ty", "?")), args)
    return [(st, UNIT)]


def _int_method(ex, st, fr, callee, args, dty):
    m = re.search(r"<impl (\w+)>::(\w+)$", callee)
    ty, meth = m.group(1), m.group(2)
    if ty not in INT_BITS:
        return None
    signed = ty in SIGNED
    a = ex.as_bv(args[0], INT_BITS[ty])
    if meth == "wrapping_add":
        return [(st, a + ex.as_bv(args[1], a.size()))]
    if meth == "wrapping_sub":
        return [(st, a - ex.as_bv(args[1], a.size()))]
    if meth in ("checked_add", "checked_sub"):
        b = ex.as_bv(args[1], a.size())
        if meth == "checked_add":
            ok = z3.BVAddNoOverflow(a, b, signed)
            r = a + b
        else:
            ok = z3.BVSubNoUnderflow(a, b, signed)
            r = a - b
        outs = []
        if ex.feasible(st, ok):
            s1 = st.clone()
            s1.pc.append(ok)
            outs.append((s1, _mk(ex, dty, "Option", "Some", [r])))
        if ex.feasible(st, z3.Not(ok)):
            st.pc.append(z3.Not(ok))
            outs.append((st, _mk(ex, dty, "Option", "None", [])))
        return outs
    if meth == "saturating_add":
        b = ex.as_bv(args[1], a.size())
        mx = z3.BitVecVal((1 << a.size()) - 1, a.size())
        return [(st, z3.If(z3.BVAddNoOverflow(a, b, False), a + b, mx))]
    return None


def _int_bytes(ex, st, fr, callee, args, dty):
    """to_ne_bytes / from_ne_bytes: a byte array is kept as a view of the integer it encodes"""
    m = re.search(r"<impl (\w+)>::(\w+)$", callee)
    ty, meth = m.group(1), m.group(2)
    bits = INT_BITS[ty]
    v = args[0]
    if meth.startswith("to_"):
        a = Agg("[u8; %d]" % (bits // 8), [ex.as_bv(v, bits)], "bytes")
        a.bytes_of = True
        return [(st, a)]
    if isinstance(v, Agg) and getattr(v, "bytes_of", False):
        return [(st, v.fields[0])]
    if isinstance(v, Sym):
        if "as_int" not in v.tags:
            v.tags["as_int"] = z3.BitVec("i_bytes_%d" % v.id, bits)
        return [(st, v.tags["as_int"])]
    if isinstance(v, Agg):
        # an array of known bytes that was not written through an opaque call: all zero or unknown
        return [(st, z3.BitVec("i_bytes_%d" % next(_ids), bits))]
    return None


def _unused_tail():
    if False:
        return None
    return None


def _cmp_min(ex, st, fr, callee, args, dty):
    a, b = args[0], args[1]
    if z3.is_bv(a) and z3.is_bv(b):
        if "max" in callee:
            return [(st, z3.If(z3.UGE(a, b), a, b))]
        return [(st, z3.If(z3.ULE(a, b), a, b))]
    return None


def _into_usize(ex, st, fr, callee, args, dty):
    return None


def _fnmut_call(ex, st, fr, callee, args, dty):
    """<F as FnMut<Args>>::call_mut(&mut f, (args,)) / FnOnce::call_once / Fn::call"""
    clos = args[0]
    tup = args[1] if len(args) > 1 else Agg("()", [])
    cargs = tup.fields if isinstance(tup, Agg) else [tup]
    return ex.call_closure_or_fn(st, clos, cargs, dty)


def call_closure_or_fn(self, st, clos, cargs, dty):
    if isinstance(clos, FnItem):
        ret = self.fresh(dty, "r%d" % len(st.trace))
        self.event(st, "call", clos.text, list(cargs), ret)
        return [(st, ret)]
    return self.call_closure(st, clos, cargs, dty)


Executor.call_closure_or_fn = call_closure_or_fn


def _panic(ex, st, fr, callee, args, dty):
    ex.event(st, "panic", callee, args)
    return [(st, PANIC)]


def _range_next(ex, st, fr, callee, args, dty):
    """`<Range<usize> as Iterator>::next`: Some(fresh) or None; the two outcomes are events so
    that obligations can tell loop exhaustion from `break`."""
    d = z3.Int("d_next_%d" % next(_ids))
    outs = []
    for i, nm in ((1, "Some"), (0, "None")):
        if ex.feasible(st, d == i):
            s2, it = copy.deepcopy((st, args[0])) if i == 1 else (st, args[0])
            s2.pc.append(d == i)
            ex.event(s2, "iter_next", nm, [it])
            if i == 1:
                outs.append((s2, _mk(ex, dty, "Option", "Some", [ex.fresh(re.sub(r"^.*?Option<(.*)>$", r"\1", dty or "?"), "item%d" % len(s2.trace))])))
            else:
                outs.append((s2, _mk(ex, dty, "Option", "None", [])))
    return outs


def _box_new(ex, st, fr, callee, args, dty):
    """RefCell::new / Cell::new / Rc::new / Arc::new / Box::new: a symbolic owner whose content IS the
    value passed in (so later reads and writes through borrows see it)"""
    s_ = Sym(dty, "new%d" % len(st.trace))
    s_.pointee = Obj("*" + s_.name, args[0])
    ex.event(st, "new", short_ty(dty or "?"), [args[0]], s_)
    return [(st, s_)]


HANDLERS = [
    (r"^(std::\w+::)?(RefCell|Cell|Rc|Arc|Box)::<.*>::new$", _box_new),
    (r"^<.* as (Deref|DerefMut)>::deref(_mut)?$", _deref),
    (r"^<.* as (AsRef|AsMut|Borrow|BorrowMut)<.*>>::(as_ref|as_mut|borrow|borrow_mut)$", _deref),
    (r"^RefCell::<.*>::(try_)?borrow(_mut)?$", _borrow),
    (r"^Cell::<.*>::(replace|set|get|take)$", _cell_op),
    (r"^<.* as Try>::branch$", _try_branch),
    (r"^<.* as FromResidual<.*>>::from_residual$", _from_residual),
    (r"^Option::<.*>::take$", _opt_take),
    (r"^Option::<.*>::get_or_insert$", _opt_get_or_insert),
    (r"^Option::<.*>::replace$", _opt_replace),
    (r"^(Option|Result|std::result::Result|std::option::Option)::<.*>::(is_some|is_none|is_ok|is_err|ok|err|unwrap|expect|unwrap_or|unwrap_or_default|ok_or|or|as_ref|as_mut|map|map_err|and_then|unwrap_or_else|map_or|or_else|is_some_and|inspect|filter)(::<.*>)?$", _opt_res_simple),
    (r"^std::mem::take::<.*>$", _mem_take),
    (r"^std::mem::replace::<.*>$", _mem_replace),
    (r"^std::mem::forget::<.*>$", _mem_forget),
    (r"^(std::mem::)?drop::<.*>$", _drop_fn),
    (r"^core::num::<impl \w+>::(to|from)_(ne|le|be)_bytes$", _int_bytes),
    (r"^core::num::<impl \w+>::\w+$", _int_method),
    (r"^(std::)?cmp::(min|max)::<.*>$", _cmp_min),
    (r"^<(Rc|Arc|std::rc::Rc|std::sync::Arc)<.*> as Clone>::clone$", _clone),
    (r"^<Option<(Rc|Arc|std::rc::Rc)<.*>> as Clone>::clone$", _clone),
    (r"^<.* as (FnMut|FnOnce|Fn)<.*>>::call(_mut|_once)?$", _fnmut_call),
    (r"^(std::rt::|core::panicking::)?(panic|panic_fmt|begin_panic|panic_display|unreachable_display|panic_explicit)(::<.*>)?$", _panic),
    (r"^<(std::ops::)?Range<.*> as Iterator>::next$", _range_next),
    (r"^<.* as Into<.*>>::into$", lambda ex, st, fr, c, a, d: None),
    (r"^<&mut \[.*\] as IntoIterator>::into_iter$|^<(std::ops::)?Range<.*> as IntoIterator>::into_iter$", _identity),
]
