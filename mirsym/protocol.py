"""Engine P: bounded interleaving check of MIR-extracted atomic event sequences.

Each thread is a straight-line sequence of *shared operations* extracted from
the path summaries engine M produced for the real functions (which events, in
which order, under which condition on the values they read).  Alternatives
(paths) are enumerated; for every combination z3 decides over ALL interleavings:
every operation gets a symbolic position in the global order (program order
respected, a thread may also stop early), the shared objects are small exact
models (eventfd counter, FIFO queue, atomic flags, sticky poller notification),
blocking operations carry enabling conditions, and the property is a predicate
over the execution.  `unsat` = no interleaving inside the bound violates it.
"""
import itertools
import re
import time

import z3

from .mir_parse import Unsupported


class Op:
    def __init__(self, kind, obj=None, val=None, src=None, cond=None, tag=None):
        self.kind = kind      # see apply_op
        self.obj = obj
        self.val = val
        self.src = src        # originating event (for counterexamples)
        self.cond = cond      # fn(get) -> z3 Bool over what EARLIER ops of the same thread read
        #                       (get(op index, key)); false => the op is skipped (no effect, never blocks)
        self.tag = tag

    def __repr__(self):
        return "%s(%s%s)" % (self.kind, self.obj or "", "" if self.val is None else ",%s" % self.val)


class Thread:
    def __init__(self, name, ops, may_stop=False):
        self.name = name
        self.ops = ops
        self.may_stop = may_stop   # the thread may be cut off after any op (loop thread at a blocking wait)


QCAP = 4


class World:
    """symbolic shared state at one point of the global order"""

    def __init__(self, efd, flags, qlen, qitems, qsenders, notified, obs):
        self.efd, self.flags, self.qlen, self.qitems, self.qsenders, self.notified, self.obs = \
            efd, flags, qlen, qitems, qsenders, notified, obs

    @staticmethod
    def init(nflags, flag_init, senders):
        return World(z3.BitVecVal(0, 64), [z3.BoolVal(b) for b in flag_init], z3.IntVal(0),
                     [z3.IntVal(0)] * QCAP, z3.IntVal(senders), z3.BoolVal(False), {})


def ite_world(c, a, b):
    return World(z3.If(c, a.efd, b.efd), [z3.If(c, x, y) for x, y in zip(a.flags, b.flags)],
                 z3.If(c, a.qlen, b.qlen), [z3.If(c, x, y) for x, y in zip(a.qitems, b.qitems)],
                 z3.If(c, a.qsenders, b.qsenders), z3.If(c, a.notified, b.notified), {})


def apply_op(op, w, bound):
    """returns (world', ret dict of z3 values, enabled condition)"""
    k = op.kind
    ret = {}
    en = z3.BoolVal(True)
    efd, flags, qlen, qitems, qs, notif = w.efd, list(w.flags), w.qlen, list(w.qitems), w.qsenders, w.notified
    if k == "efd_write":
        efd = efd + z3.BitVecVal(op.val, 64)
    elif k == "efd_read":
        ret["val"] = efd
        ret["ok"] = efd != 0
        ret["qlen"] = qlen            # observation only (for progress properties)
        efd = z3.If(efd != 0, z3.BitVecVal(0, 64), efd)
    elif k == "flag_load":
        ret["val"] = flags[op.obj]
    elif k == "flag_store":
        flags[op.obj] = z3.BoolVal(bool(op.val))
    elif k == "flag_swap":
        ret["val"] = flags[op.obj]
        flags[op.obj] = z3.BoolVal(bool(op.val))
    elif k == "q_send":
        # unbounded send (or a blocking send that has room): enqueue op.val
        ret["ok"] = z3.BoolVal(True)
        en = qlen < QCAP
        qitems = [z3.If(qlen == i, z3.IntVal(op.val), qitems[i]) for i in range(QCAP)]
        qlen = qlen + 1
    elif k == "q_try_send":
        full = qlen >= bound
        ret["ok"] = z3.Not(full)
        ret["full"] = full
        qitems = [z3.If(z3.And(z3.Not(full), qlen == i), z3.IntVal(op.val), qitems[i]) for i in range(QCAP)]
        qlen = z3.If(full, qlen, qlen + 1)
    elif k == "q_send_blocking":
        en = qlen < bound if bound > 0 else qlen < 1
        ret["ok"] = z3.BoolVal(True)
        qitems = [z3.If(qlen == i, z3.IntVal(op.val), qitems[i]) for i in range(QCAP)]
        qlen = qlen + 1
    elif k == "q_offer":
        # rendezvous (capacity 0): the blocked sender's message becomes visible to try_recv
        en = qlen < 1
        qitems = [z3.If(qlen == i, z3.IntVal(op.val), qitems[i]) for i in range(QCAP)]
        qlen = qlen + 1
    elif k == "q_wait_taken":
        en = qlen == 0
        ret["ok"] = z3.BoolVal(True)
    elif k == "q_drop_sender":
        qs = qs - 1
    elif k == "q_try_recv":
        has = qlen > 0
        ret["ok"] = has
        ret["val"] = qitems[0]
        ret["disc"] = z3.And(z3.Not(has), qs <= 0)
        qitems = [z3.If(has, qitems[i + 1] if i + 1 < QCAP else z3.IntVal(0), qitems[i]) for i in range(QCAP)]
        qlen = z3.If(has, qlen - 1, qlen)
    elif k == "notify":
        notif = z3.BoolVal(True)
    elif k == "wait_efd":          # level-triggered wait on the eventfd (or a notification)
        en = z3.Or(efd != 0, notif)
        ret["efd_ready"] = efd != 0
        notif = z3.BoolVal(False)
    elif k == "wait_any":          # Poller::wait(None): returns on a notification or a ready eventfd
        en = z3.Or(efd != 0, notif)
        ret["efd_ready"] = efd != 0
        notif = z3.BoolVal(False)
    elif k in ("cb", "run", "poll", "mark", "ret"):
        pass
    else:
        raise Unsupported("protocol op " + k)
    return World(efd, flags, qlen, qitems, qs, notif, {}), ret, en


class Execution:
    """z3 encoding of one combination of straight-line threads"""

    def __init__(self, threads, nflags=0, flag_init=(), senders=0, bound=QCAP):
        self.threads = threads
        self.s = z3.Solver()
        self.ops = []          # (thread idx, op idx, Op)
        for ti, t in enumerate(threads):
            for oi, op in enumerate(t.ops):
                self.ops.append((ti, oi, op))
        n = len(self.ops)
        self.n = n
        self.pos = [z3.Int("pos_%d" % i) for i in range(n)]
        self.exe = [z3.Bool("exe_%d" % i) for i in range(n)]      # executed at all
        s = self.s
        for i in range(n):
            s.add(z3.Implies(self.exe[i], z3.And(self.pos[i] >= 0, self.pos[i] < n)))
            s.add(z3.Implies(z3.Not(self.exe[i]), self.pos[i] == n + i))
        s.add(z3.Distinct(*self.pos))
        idx = {}
        for i, (ti, oi, op) in enumerate(self.ops):
            idx[(ti, oi)] = i
        self.idx = idx
        for i, (ti, oi, op) in enumerate(self.ops):
            if oi > 0:
                j = idx[(ti, oi - 1)]
                s.add(z3.Implies(self.exe[i], z3.And(self.exe[j], self.pos[j] < self.pos[i])))
            if not threads[ti].may_stop:
                # a non-stopping thread runs to completion unless an op of it is disabled forever
                pass
        # executed ops occupy a prefix 0..m-1 of the positions
        self.m = z3.Sum([z3.If(e, 1, 0) for e in self.exe])
        for i in range(n):
            s.add(z3.Implies(self.exe[i], self.pos[i] < self.m))
        # worlds
        w = World.init(nflags, flag_init, senders)
        self.worlds = [w]
        self.rets = [dict() for _ in range(n)]
        self.enabled_at = [None] * n
        results = [apply_op(op, None, bound) if False else None for _ in range(n)]
        for k in range(n):
            # which op runs at position k
            nxt = w
            for i, (ti, oi, op) in enumerate(self.ops):
                w2, ret, en = apply_op(op, w, bound)
                if op.cond is not None:
                    cnd = op.cond(lambda o2, key, _ti=ti: self.rets[self.idx[(_ti, o2)]].get(key, z3.BoolVal(False)))
                    w2 = ite_world(cnd, w2, w)
                    en = z3.Implies(cnd, en)
                    ret = dict(ret)
                    ret["active"] = cnd
                else:
                    ret = dict(ret)
                    ret["active"] = z3.BoolVal(True)
                here = z3.And(self.exe[i], self.pos[i] == k)
                nxt = ite_world(here, w2, nxt)
                for key, v in ret.items():
                    prev = self.rets[i].get(key)
                    self.rets[i][key] = v if prev is None else z3.If(here, v, prev)
                s.add(z3.Implies(here, en))
            w = nxt
            self.worlds.append(w)
        self.bound = bound

    def world_at_end(self):
        """the world after the last executed op"""
        w = self.worlds[0]
        for k in range(1, self.n + 1):
            w = ite_world(self.m >= k, self.worlds[k], w)
        return w

    def ret(self, ti, oi, key):
        return self.rets[self.idx[(ti, oi)]][key]

    def executed(self, ti, oi):
        return self.exe[self.idx[(ti, oi)]]

    def position(self, ti, oi):
        return self.pos[self.idx[(ti, oi)]]

    def thread_done(self, ti):
        t = self.threads[ti]
        return self.exe[self.idx[(ti, len(t.ops) - 1)]] if t.ops else z3.BoolVal(True)

    def next_op_disabled(self, ti, wend):
        """the thread is stuck: its first unexecuted op exists and is not enabled in the end world"""
        t = self.threads[ti]
        cases = []
        for oi, op in enumerate(t.ops):
            i = self.idx[(ti, oi)]
            first_unexec = z3.And(z3.Not(self.exe[i]), self.exe[self.idx[(ti, oi - 1)]] if oi > 0 else z3.BoolVal(True))
            _, _, en = apply_op(op, wend, self.bound)
            if op.cond is not None:
                en = z3.Implies(op.cond(lambda o2, key, _ti=ti: self.rets[self.idx[(_ti, o2)]].get(key, z3.BoolVal(False))), en)
            cases.append(z3.And(first_unexec, z3.Not(en)))
        return z3.Or(*cases) if cases else z3.BoolVal(False)

    def maximal(self, wend):
        """no thread has an enabled unexecuted next op (the execution cannot be extended)"""
        cs = []
        for ti, t in enumerate(self.threads):
            for oi, op in enumerate(t.ops):
                i = self.idx[(ti, oi)]
                first_unexec = z3.And(z3.Not(self.exe[i]), self.exe[self.idx[(ti, oi - 1)]] if oi > 0 else z3.BoolVal(True))
                _, _, en = apply_op(op, wend, self.bound)
                if op.cond is not None:
                    en = z3.Implies(op.cond(lambda o2, key, _ti=ti: self.rets[self.idx[(_ti, o2)]].get(key, z3.BoolVal(False))), en)
                cs.append(z3.Implies(first_unexec, z3.Not(en)))
        return z3.And(*cs) if cs else z3.BoolVal(True)

    def check(self, *extra):
        t = time.time()
        r = self.s.check(*extra)
        dt = time.time() - t
        if r == z3.unknown:
            raise Unsupported("z3 unknown in interleaving query")
        return r == z3.sat, (self.s.model() if r == z3.sat else None), dt

    def schedule(self, m):
        order = []
        for i, (ti, oi, op) in enumerate(self.ops):
            if z3.is_true(m.eval(self.exe[i], model_completion=True)):
                act = self.rets[i].get("active")
                skipped = act is not None and z3.is_false(m.eval(act, model_completion=True))
                if skipped:
                    continue
                extra = ""
                for key in ("val", "ok", "efd_ready"):
                    if key in self.rets[i]:
                        extra += " %s=%s" % (key, m.eval(self.rets[i][key], model_completion=True))
                order.append((m.eval(self.pos[i], model_completion=True).as_long(), self.threads[ti].name, repr(op) + extra))
        order.sort()
        return ["%2d %-10s %s" % o for o in order]
