"""Engine M/P driver: regenerates the MIR dump from /repo's current working tree,
parses it, runs the obligations registered for a property and turns failing
ones into verdicts through the scripted native replays (DESIGN.md 1.5)."""
import glob
import os
import re
import subprocess
import sys
import time
import traceback

from vlib import common
from vlib.common import log, run
from . import mir_parse, symex
from .mir_parse import Unsupported

FEATURES = "block_on,executor,signals,stream,futures-io"

M_ASSUMPTIONS = [
    "engine M executes the textual MIR of `cargo +nightly rustc --lib --features %s -- -Zunpretty=mir "
    "-C overflow-checks=on` of a scratch copy of /repo in which only `tracing` is replaced (logging macros "
    "expand to nothing); unwinding edges are not followed (a panic ends the path)" % FEATURES,
    "calls without a body in the dump (std, polling, rustix, nix, async_task, mpsc, user callbacks, trait-object "
    "methods) are events returning fresh symbolic values, except the std combinators given semantics in "
    "mirsym/symex.py HANDLERS (Deref, RefCell borrow/guards, Cell ops, Try/FromResidual, Option/Result "
    "combinators with closure inlining, mem::take/replace, integer methods, Range::next)",
    "a violated obligation is reported as VIOLATION only if one of its scripted public-API scenarios "
    "(replay/native/tests) fails against the real build of the same tree; otherwise the run is inconclusive",
]

_ctx_cache = {}


class Ctx:
    def __init__(self, fns, enums, src_dir, root):
        self.fns = fns
        self.enums = enums
        self.src_dir = src_dir
        self.root = root
        self.queries = 0
        self.solver_s = 0.0

    def fn(self, rx):
        f = symex.find_fn(self.fns, rx)
        if f is None:
            raise Unsupported("function not found in the MIR dump: " + rx)
        return f

    def cfg(self, **kw):
        c = symex.Config(self.fns, enums=self.enums, **kw)
        return c

    def run(self, rx, cfg=None, args=None, **kw):
        cfg = cfg or self.cfg(**kw)
        f = self.fn(rx)
        ex = symex.Executor(cfg)
        t = time.time()
        paths = ex.run_fn(f, args or [])
        self.queries += cfg.queries
        self.solver_s += cfg.solver_s
        return f, paths, cfg


def parse_enums(src_dir):
    """variant order of every enum defined in the crate's source (discriminant = position)"""
    enums = {}
    for f in glob.glob(os.path.join(src_dir, "**", "*.rs"), recursive=True):
        t = open(f).read()
        t = re.sub(r"//[^\n]*", "", t)
        for m in re.finditer(r"\benum\s+(\w+)\s*(?:<[^>{]*>)?\s*\{", t):
            name = m.group(1)
            i = m.end()
            depth = 1
            j = i
            while j < len(t) and depth:
                if t[j] == "{":
                    depth += 1
                elif t[j] == "}":
                    depth -= 1
                j += 1
            body = t[i:j - 1]
            vs = []
            depth = 0
            cur = ""
            for c in body:
                if c in "({[<":
                    depth += 1
                elif c in ")}]>":
                    depth -= 1
                if c == "," and depth == 0:
                    vs.append(cur)
                    cur = ""
                else:
                    cur += c
            vs.append(cur)
            names = []
            for v in vs:
                v = re.sub(r"#\[[^\]]*\]", "", v).strip()
                mm = re.match(r"(\w+)", v)
                if mm:
                    names.append(mm.group(1))
            if names and name not in ("Signal",):
                enums.setdefault(name, names)
    return enums


def build_ctx():
    if "ctx" in _ctx_cache:
        return _ctx_cache["ctx"]
    root = common.new_scratch("m")
    crate = os.path.join(root, "calloop")
    common.copy_repo(crate)
    p = os.path.join(crate, "Cargo.toml")
    s = open(p).read()
    s = re.sub(r"members\s*=\s*\[[^\]]*\]", "members = []", s)
    s += '\n[patch.crates-io]\ntracing = { path = "%s/env/tracing" }\n' % common.VERIF
    open(p, "w").write(s)
    out = os.path.join(root, "calloop.mir")
    cmd = ["cargo", "+nightly", "rustc", "--offline", "--lib", "--features", FEATURES, "--",
           "-Zunpretty=mir", "-C", "debug-assertions=off", "-C", "overflow-checks=on"]
    t = time.time()
    p = subprocess.run(cmd, cwd=crate, env=common.BASE_ENV, stdout=open(out, "w"), stderr=subprocess.PIPE, text=True)
    if p.returncode != 0 or os.path.getsize(out) < 1000:
        raise Unsupported("MIR dump failed: " + p.stderr[-1500:])
    fns = mir_parse.parse_file(open(out).read())
    ctx = Ctx(fns, parse_enums(os.path.join(crate, "src")), os.path.join(crate, "src"), root)
    ctx.mir_s = time.time() - t
    _ctx_cache["ctx"] = ctx
    return ctx


def native_replay(tests, root):
    """run scripted public-API scenario tests (files in replay/native/tests) against a scratch
    copy of /repo with the REAL polling/rustix. Returns (failed_tests, text)."""
    nat = os.path.join(root, "native")
    if not os.path.exists(nat):
        subprocess.run(["rsync", "-a", os.path.join(common.VERIF, "replay", "native") + "/", nat + "/"], check=True)
        crate = os.path.join(root, "calloop_real")
        common.copy_repo(crate)
        p = os.path.join(crate, "Cargo.toml")
        s = open(p).read()
        s = re.sub(r"members\s*=\s*\[[^\]]*\]", "members = []", s)
        open(p, "w").write(s)
        ct = os.path.join(nat, "Cargo.toml")
        s = open(ct).read().replace('path = "/repo"', 'path = "%s"' % crate)
        open(ct, "w").write(s)
        lock = os.path.join(common.REPO, "Cargo.lock")
    failed = []
    text = ""
    for t in tests:
        rc, out, dt = run(["cargo", "test", "--offline", "--test", t, "--", "--test-threads", "1"], cwd=nat, timeout=600)
        text += "\n$ cargo test --test %s  (rc=%s)\n" % (t, rc) + "\n".join(
            l for l in out.splitlines() if re.search(r"^test |panicked|test result|error(\[|:)", l))[:3000]
        if rc != 0:
            if re.search(r"error(\[E\d+\])?: ", out) and "test result" not in out:
                text += "\n(build error: scenario could not be compiled against this tree)\n"
                continue
            failed += ["%s::%s" % (t, n) for n in re.findall(r"^test (\S+) \.\.\. FAILED", out, flags=re.M)]
    return failed, text


def known_failing_suites():
    """scenario suites that reproduce a RECORDED known finding: they fail on the unchanged tree, so their failure
    confirms nothing about any other counterexample"""
    out = set()
    for f in common.load_known():
        if f.get("status") == "known":
            m = re.search(r"tests/(\w+)\.rs", f.get("native_replay", ""))
            if m:
                out.add(m.group(1))
    return out


def run_obligations(prop, obs, tier):
    results, violations, knowns = [], [], []
    t0 = time.time()
    try:
        ctx = build_ctx()
    except Exception as e:
        return ([{"id": "M:mir-dump", "engine": "mirsym", "status": "inconclusive", "detail": str(e)[:400],
                  "functions": [], "nontrivial": False}], M_ASSUMPTIONS, [], [])
    from . import obligations as _ob
    _ob.TIER["tier"] = tier
    for ob in obs:
        rid = "%s:%s" % (ob.get("kind", "M"), ob["name"])
        res = {"id": rid, "engine": "mirsym" if ob.get("kind", "M") == "M" else "mirsym+interleaving",
               "what": ob.get("what", ""), "functions": ob.get("functions", []), "bounds": ob.get("bounds", ""),
               "status": "inconclusive", "detail": "", "nontrivial": False, "queries": 0, "solver_s": 0.0}
        q0, s0 = ctx.queries, ctx.solver_s
        t1 = time.time()
        try:
            out = ob["fn"](ctx, tier)
            # out: dict(ok: bool, witness: bool, detail: str, cex: str, failing: [tags], queries: int)
            res["queries"] = max(1, ctx.queries - q0 + int(out.get("queries", 0)))
            res["solver_s"] = round(ctx.solver_s - s0 + float(out.get("solver_s", 0)), 3)
            res["detail"] = out.get("detail", "")
            res["paths"] = out.get("paths")
            res["opaque_on_paths"] = out.get("opaque")
            if out["ok"]:
                if out.get("witness", False):
                    res["status"] = "holds"
                    res["nontrivial"] = True
                else:
                    res["detail"] = "vacuous: the reachability witness of this obligation was not found; " + res["detail"]
            else:
                tags = out.get("failing") or ["violated"]
                res["failed_tags"] = tags
                res["cex"] = out.get("cex", "")[:4000]
                failed, text = ([], "no scripted scenario registered")
                all_known = all(common.match_known(prop, "%s:%s" % (rid, tag)) for tag in tags)
                if all_known:
                    # recorded findings were reproduced natively when they were recorded (known_findings.json
                    # names the reproduction); they are not re-run on every check
                    failed, text = (["<recorded>"], "recorded known finding")
                elif ob.get("replay"):
                    failed, text = native_replay(ob["replay"], ctx.root)
                    kfs = known_failing_suites()
                    dropped = [t for t in failed if t.split("::")[0] in kfs]
                    if dropped:
                        text += "\n(not counted as reproduction: %s -- suites of recorded known findings fail on the unchanged tree)\n" % dropped
                    failed = [t for t in failed if t.split("::")[0] not in kfs]
                if failed:
                    unknown = []
                    for tag in tags:
                        key = "%s:%s" % (rid, tag)
                        kf = common.match_known(prop, key)
                        if kf:
                            knowns.append((key, kf.get("what", "")))
                        else:
                            unknown.append(key)
                    if unknown:
                        os.makedirs(os.path.join(common.VERIF, "replay", "out"), exist_ok=True)
                        rp = os.path.join(common.VERIF, "replay", "out", "%s-%s.txt" % (prop, ob["name"]))
                        with open(rp, "w") as f:
                            f.write("obligation %s violated: %s\n\nsolver counterexample (path / values):\n%s\n\n"
                                    "native reproduction against the real build (scenarios %s; sources in "
                                    "/verif/replay/native/tests):\nfailed: %s\n%s\n"
                                    % (rid, ", ".join(tags), out.get("cex", ""), ob.get("replay"), failed, text))
                        res["status"] = "violated"
                        violations.append((unknown, rp))
                    else:
                        res["status"] = "known"
                else:
                    res["status"] = "inconclusive"
                    res["detail"] = ("obligation violated (%s) but no scripted scenario reproduced it natively: %s"
                                     % (", ".join(tags), res["detail"]))
        except Unsupported as e:
            res["detail"] = "unsupported / not found: " + str(e)[:300]
        except Exception as e:
            res["detail"] = "internal error: %s" % (traceback.format_exc()[-600:])
        res["wall_s"] = round(time.time() - t1, 2)
        results.append(res)
    return results, M_ASSUMPTIONS, violations, knowns
