"""debug helper: python3-vt -m mirsym.dbg <obligation fn name> [--fresh]  (uses a cached MIR dump in /var/tmp/mirdbg)"""
import os, sys, subprocess, re
sys.path.insert(0, '/verif')
from vlib import common
from mirsym import driver, mir_parse, obligations, symex
d = '/var/tmp/mirdbg'
if '--fresh' in sys.argv or not os.path.exists(d + '/calloop.mir'):
    os.environ['VERIF_KEEP'] = '1'
    ctx = driver.build_ctx()
    subprocess.run(['rm', '-rf', d]); subprocess.run(['mv', ctx.root, d])
fns = mir_parse.parse_file(open(d + '/calloop.mir').read())
ctx = driver.Ctx(fns, driver.parse_enums(d + '/calloop/src'), d + '/calloop/src', d)
if len(sys.argv) > 1 and not sys.argv[1].startswith('--'):
    r = getattr(obligations, sys.argv[1])(ctx, 'quick')
    print({k: v for k, v in r.items() if k not in ('cex', 'opaque')})
    print(r.get('cex', ''))


def show(rx, unroll=0, maxp=12, inline=None):
    from mirsym.obligations import fmt_path
    import collections
    cfg = ctx.cfg(unroll=unroll, inline=inline or [])
    f, paths, cfg = ctx.run(rx, cfg=cfg)
    print('==', f.name, len(paths), collections.Counter(p.status for p in paths))
    for p in paths[:maxp]:
        print(fmt_path(p)); print('  ret=', p.ret)
    return paths


if '--show' in sys.argv:
    i = sys.argv.index('--show')
    show(sys.argv[i + 1], int(sys.argv[i + 2]) if len(sys.argv) > i + 2 else 0)

if '--p' in sys.argv:
    from mirsym import pqueries
    import time
    t = time.time()
    r = getattr(pqueries, sys.argv[sys.argv.index('--p') + 1])(ctx, os.environ.get('TIER', 'quick'))
    print({k: v for k, v in r.items() if k != 'cex'}, 'wall %.1f' % (time.time() - t))
    print(r.get('cex', ''))
