"""Obligations of engine M: assertions over the path summaries of real functions.

Every obligation function takes (ctx, tier) and returns a dict
  ok       True = the negation is unsatisfiable on every path inside the bound
  witness  True = the obligation's subject was reached on at least one path (non-vacuity)
  failing  list of tags (one per distinct failing clause)
  cex      text of a violating path (events + path condition)
  detail / paths / opaque
"""
import os
import re

import z3

from . import symex
from .symex import Enum, Sym, Agg, Ref, disc_of
from .mir_parse import Unsupported

DE = r"::dispatch_events\(_1: &mut EventLoop"


# ---------------------------------------------------------------- helpers
def is_call(e, rx):
    return e.kind in ("call", "callback") and re.search(rx, e.callee) is not None


def proc_events(p):
    return [e for e in p.trace if is_call(e, r"dyn sources::EventDispatcher<Data>.*::process_events$")]


def fmt_path(p, upto=None):
    out = []
    for e in p.trace[:upto]:
        out.append("  %2d %-10s %s(%s) -> %s  guards=%s" % (
            e.idx, e.kind, e.callee[-70:], ", ".join(str(a)[:40] for a in e.args), str(e.ret)[:40],
            [symex.short_ty(g[1]) for g in e.guards]))
    out.append("  status=%s pc=%s" % (p.status, [str(z3.simplify(c))[:80] for c in p.pc][-8:]))
    return "\n".join(out)


def entails(ctx, pc, fact):
    """pc => fact ?   (unsat of pc /\\ not fact)"""
    s = z3.Solver()
    for c in pc:
        s.add(c)
    s.add(z3.Not(fact))
    ctx.queries += 1
    r = s.check()
    if r == z3.unknown:
        raise Unsupported("z3 unknown")
    return r == z3.unsat, (s.model() if r == z3.sat else None)


def dz(d):
    return z3.IntVal(d) if isinstance(d, int) else d


_cache = {}
TIER = {"tier": "quick"}


def de_paths(ctx, first_loop=0):
    """paths of dispatch_events: every loop body once (unroll 0); `first_loop`=1 additionally lets
    the before_sleep loop complete one iteration so that the rest of the function is seen after
    a lifecycle source was processed."""
    if TIER["tier"] == "thorough":
        first_loop = 1          # thorough: the lifecycle loops complete one more iteration everywhere
    key = ("de", first_loop)
    if key not in _cache:
        cfg = ctx.cfg(unroll=0, max_paths=50000)
        f = ctx.fn(DE)
        symex.parse_body(f)
        if first_loop:
            # the head of the first `for source in &mut *extra_lifecycle_sources.values` loop: the
            # first block whose terminator calls IterMut::next
            heads = [b.name for b in f.blocks.values() if b.term and b.term[0] == "call"
                     and "IterMut" in b.term[2] and b.term[2].endswith("::next")]
            heads.sort(key=lambda n: int(n[2:]))
            if not heads:
                raise Unsupported("lifecycle loop head not found")
            for h in heads:
                cfg.loop_bounds[(f.short(), h)] = 1
        _cache[key] = ctx.run(DE, cfg=cfg)
    return _cache[key]


def de_paths_any_iteration(ctx):
    """paths of ONE iteration of the events loop of dispatch_events from an ARBITRARY state of everything an earlier
    iteration may have left behind (all loop-carried locals are replaced by fresh symbolic values at the loop head):
    what holds on these paths holds for the n-th event of a batch, not only for the first."""
    key = ("de_any",)
    if key not in _cache:
        cfg = ctx.cfg(unroll=0, max_paths=50000)
        f = ctx.fn(DE)
        symex.parse_body(f)
        heads = [b.name for b in f.blocks.values() if b.term and b.term[0] == "call"
                 and re.search(r"Chain<.*> as Iterator>::next$", b.term[2])]
        if len(heads) != 1:
            raise Unsupported("events loop head not found")
        cfg.havoc_heads = {(f.short(), heads[0])}
        _cache[key] = ctx.run(DE, cfg=cfg)
    return _cache[key]


def de_paths_exit(ctx):
    """paths of dispatch_events for a batch of exactly ONE event: the events loop runs one iteration and the
    iterator is exhausted on the second visit of its head (bounded unwinding with the loop-exit assumption),
    so every path runs on to the function's return."""
    key = ("de_exit",)
    if key not in _cache:
        cfg = ctx.cfg(unroll=0, max_paths=50000)
        f = ctx.fn(DE)
        symex.parse_body(f)
        heads = [b.name for b in f.blocks.values() if b.term and b.term[0] == "call"
                 and re.search(r"Chain<.*> as Iterator>::next$", b.term[2])]
        if len(heads) != 1:
            raise Unsupported("events loop head not found")
        cfg.exit_heads = {(f.short(), heads[0])}
        _cache[key] = ctx.run(DE, cfg=cfg)
    return _cache[key]


def opaque_list(cfg):
    return sorted(cfg.opaque, key=lambda k: -cfg.opaque[k])[:25]


def result(ok, witness, failing, cex, detail, paths, cfg):
    return {"ok": ok, "witness": witness, "failing": sorted(set(failing)), "cex": cex, "detail": detail,
            "paths": len(paths), "opaque": opaque_list(cfg)}


def pending_cell(e):
    return e.kind == "cell" and "PostAction" in e.info.get("cell_ty", "")


# ---------------------------------------------------------------- C09 / C08: pa-2
def ob_pa2_reset(ctx, tier):
    """on EVERY path from a process_events event to the next iteration or to the function's return
    (error paths included) LoopInner::pending_action is reset with replace(Continue) exactly once"""
    f, paths, cfg = de_paths_any_iteration(ctx)
    failing, cex, witness = [], "", False
    for p in paths:
        pes = proc_events(p)
        if not pes:
            continue
        witness = True
        pe = pes[0]
        if p.status == "panic" and p.trace[-1].idx == pe.idx:
            continue
        resets = [e for e in p.trace[pe.idx + 1:] if pending_cell(e) and e.callee in ("replace", "set", "take")]
        good = [e for e in resets if e.callee == "replace" and isinstance(e.args[1], Enum) and e.args[1].disc == 0] \
            if resets else []
        if len(resets) != 1 or len(good) != 1:
            tag = "pending_action_not_reset_on_%s_path" % (
                "error" if (p.status == "return" and isinstance(p.ret, Enum) and p.ret.disc == 1) else
                ("ok" if p.status != "panic" else "panic"))
            if len(resets) > 1:
                tag = "pending_action_reset_more_than_once"
            failing.append(tag)
            cex = cex or fmt_path(p)
    return result(not failing, witness, failing, cex,
                  "%d paths with a process_events event checked" % sum(1 for p in paths if proc_events(p)), paths, cfg)


def _applied_action(p, pe, rep):
    """which post-action the loop applied on this path, read off the events between the reset and
    the 'was it removed' lookup: reregister -> 1, unregister -> 2, get_mut -> 3, nothing -> 0"""
    after = p.trace[rep.idx + 1:]
    gets = [e for e in after if is_call(e, r"SourceList::<.*>::get$")]
    stop = gets[0].idx if gets else (after[-1].idx + 1 if after else rep.idx + 1)
    seg = [e for e in after if e.idx < stop]
    if any(is_call(e, r"EventDispatcher<Data>>::reregister$") for e in seg):
        return 1
    if any(is_call(e, r"EventDispatcher<Data>>::unregister$") for e in seg):
        return 2
    if any(is_call(e, r"SourceList::<.*>::get_mut$") for e in seg):
        return 3
    return 0


def ob_pa_value(ctx, tier):
    """the action applied equals the source's explicit return unless that is Continue, in which
    case it is the deferred request; and it is applied to the dispatcher that was processed"""
    f, paths, cfg = de_paths_any_iteration(ctx)
    failing, cex, witness = [], "", False
    n = 0
    for p in paths:
        pes = proc_events(p)
        if not pes:
            continue
        pe = pes[0]
        reps = [e for e in p.trace[pe.idx + 1:] if pending_cell(e) and e.callee == "replace"]
        if not reps or not isinstance(pe.ret, Enum):
            continue
        okpl = pe.ret.payloads.get("Ok")
        if not okpl or 0 not in okpl:
            continue      # error path: nothing is applied
        if p.status == "panic":
            continue
        ret_d, pend_d = dz(disc_of(okpl[0])), dz(disc_of(reps[0].ret))
        a = _applied_action(p, pe, reps[0])
        # paths that return early with an error of reregister/unregister still applied `a`
        fact = z3.IntVal(a) == z3.If(ret_d == 0, pend_d, ret_d)
        dom = z3.And(ret_d >= 0, ret_d <= 3, pend_d >= 0, pend_d <= 3)
        ok, m = entails(ctx, list(p.pc) + [dom], fact)
        n += 1
        witness = True
        if not ok:
            failing.append("applied_action_differs_from_return_or_deferred_request")
            cex = cex or ("applied=%d model=%s\n" % (a, m) + fmt_path(p))
        # the action's receiver is the processed dispatcher
        for e in p.trace[reps[0].idx + 1:]:
            if is_call(e, r"EventDispatcher<Data>>::(reregister|unregister)$"):
                if not (isinstance(e.args[0], Ref) and isinstance(pe.args[0], Ref) and e.args[0].obj is pe.args[0].obj):
                    failing.append("post_action_applied_to_another_dispatcher")
                    cex = cex or fmt_path(p)
    return result(not failing, witness, failing, cex, "%d value queries" % n, paths, cfg)


# ---------------------------------------------------------------- C01: disp-1
def _item_of(p):
    """the PollEvent handed out by the events iterator in this iteration"""
    for e in p.trace:
        if is_call(e, r"Chain<.*> as Iterator>::next$") and isinstance(e.ret, Enum):
            pl = e.ret.payloads.get("Some")
            if pl and 0 in pl:
                return e, pl[0]
    return None, None


def ob_disp1_receiver(ctx, tier):
    """process_events goes to the dispatcher stored in the slot looked up with
    forget_sub_id(event.token), with the event's own readiness and token, unmodified; when the
    lookup fails or the slot is vacant nothing is dispatched in that iteration"""
    f, paths, cfg = de_paths_any_iteration(ctx)
    failing, cex, witness = [], "", False
    for p in paths:
        nx, item = _item_of(p)
        if item is None:
            continue
        pes = proc_events(p)
        gets = [e for e in p.trace[nx.idx:] if is_call(e, r"SourceList::<.*>::get$")]
        fsub = [e for e in p.trace[nx.idx:] if is_call(e, r"TokenInner::forget_sub_id$")]
        if not gets:
            continue
        g = gets[0]
        try:
            tok = item.fields[1] if isinstance(item, (Sym, Agg)) else None
            inner = tok.fields[0] if tok is not None else None
        except Exception:
            tok = inner = None
        if not fsub or fsub[0].args[0] is not inner or g.args[1] is not fsub[0].ret:
            failing.append("slot_lookup_not_keyed_by_forget_sub_id_of_event_token")
            cex = cex or fmt_path(p)
        if not isinstance(g.ret, Enum):
            raise Unsupported("get() result is not an enum")
        if pes:
            witness = True
            pe = pes[0]
            ok, _ = entails(ctx, p.pc, dz(g.ret.disc) == 0)
            if not ok:
                failing.append("dispatch_after_failed_lookup")
                cex = cex or fmt_path(p)
            # receiver == Rc stored in the entry's source field
            try:
                entry_ptr = g.ret.payloads["Ok"][0]
                entry = entry_ptr.pointee.value
                src = entry.fields[1]
                rc = src.payloads["Some"][0]
                same = isinstance(pe.args[0], Ref) and rc.pointee is not None and pe.args[0].obj is rc.pointee
            except Exception:
                same = False
            if not same:
                failing.append("receiver_is_not_the_looked_up_slots_dispatcher")
                cex = cex or fmt_path(p)
            if pe.args[1] is not item.fields.get(0) if isinstance(item, Sym) else True:
                failing.append("readiness_not_the_events")
                cex = cex or fmt_path(p)
            if pe.args[2] is not tok:
                failing.append("token_not_the_events")
                cex = cex or fmt_path(p)
        else:
            # no dispatch: only allowed when the lookup failed or the slot is vacant
            if p.status.startswith("cut") or p.status == "return":
                src_d = None
                try:
                    entry = g.ret.payloads["Ok"][0].pointee.value
                    src_d = entry.fields[1].disc
                except Exception:
                    pass
                fact = dz(g.ret.disc) == 1 if src_d is None else z3.Or(dz(g.ret.disc) == 1, dz(src_d) == 0)
                ok, _ = entails(ctx, p.pc, fact)
                if not ok:
                    failing.append("event_skipped_although_slot_is_live")
                    cex = cex or fmt_path(p)
    return result(not failing, witness, failing, cex, "", paths, cfg)


def ob_tokens_forget_sub(ctx, tier):
    """every registration-level use of the event's token inside the iteration (slot lookups,
    RegistrationToken::new, TokenFactory::new) uses the token with its sub-id forgotten"""
    f, paths, cfg = de_paths_any_iteration(ctx)
    failing, cex, witness = [], "", False
    for p in paths:
        nx, item = _item_of(p)
        if item is None:
            continue
        fsub = [e for e in p.trace[nx.idx:] if is_call(e, r"TokenInner::forget_sub_id$")]
        for e in p.trace[nx.idx:]:
            if is_call(e, r"(SourceList::<.*>::get(_mut)?|RegistrationToken::new|TokenFactory::new)$"):
                witness = True
                t = e.args[-1] if "SourceList" in e.callee else e.args[0]
                if not fsub or t is not fsub[0].ret:
                    failing.append("registration_token_built_from_token_with_sub_id")
                    cex = cex or fmt_path(p)
    return result(not failing, witness, failing, cex, "", paths, cfg)


# ---------------------------------------------------------------- C06 / C16: rm-3
def ob_rm3_removed_check(ctx, tier):
    """after the post-action: the processed dispatcher is unregistered exactly when its slot is
    vacant OR no longer resolves (removed and reused inside the callback); PostAction::Remove
    clears the slot through get_mut(reg_token)"""
    f, paths, cfg = de_paths_any_iteration(ctx)
    failing, cex, witness = [], "", False
    for p in paths:
        pes = proc_events(p)
        if not pes or p.status == "panic":
            continue
        pe = pes[0]
        reps = [e for e in p.trace[pe.idx + 1:] if pending_cell(e) and e.callee == "replace"]
        if not reps:
            continue
        gets = [e for e in p.trace[reps[0].idx:] if is_call(e, r"SourceList::<.*>::get$")]
        if not gets:
            # the function is left before the check: only possible through an error. A source that removed itself
            # inside its callback is then never unregistered by the loop.
            if isinstance(pe.ret, Enum) and entails(ctx, p.pc, dz(pe.ret.disc) == 1)[0]:
                failing.append("removed_check_skipped_when_processing_fails")
            else:
                failing.append("removed_check_skipped_when_post_action_fails")
            cex = cex or fmt_path(p)
            continue
        g = gets[0]
        unregs = [e for e in p.trace[g.idx:] if is_call(e, r"EventDispatcher<Data>>::unregister$")]
        witness = True
        if not isinstance(g.ret, Enum):
            raise Unsupported("get() result")
        gd = dz(g.ret.disc)
        src_d = None
        try:
            src_d = g.ret.payloads["Ok"][0].pointee.value.fields[1].disc
        except Exception:
            pass
        removed = gd == 1 if src_d is None else z3.Or(gd == 1, z3.And(gd == 0, dz(src_d) == 0))
        fact = removed if unregs else z3.Not(removed)
        ok, m = entails(ctx, p.pc, fact)
        if not ok:
            failing.append("removed_source_not_unregistered" if not unregs else "live_source_unregistered")
            cex = cex or ("model=%s\n" % m + fmt_path(p))
        for u in unregs:
            if not (isinstance(u.args[0], Ref) and u.args[0].obj is pe.args[0].obj):
                failing.append("unregister_of_another_dispatcher")
                cex = cex or fmt_path(p)
            # the removed source's unregistration failed: its lifecycle entry (dropped by the dispatcher only on success)
            # must be dropped by the loop, or the next dispatch meets an entry that points at a vacant slot
            if isinstance(u.ret, Enum) and entails(ctx, p.pc, dz(u.ret.disc) == 1)[0]:
                lu = [e for e in p.trace[u.idx + 1:] if is_call(e, r"AdditionalLifecycleEventsSet::unregister$")]
                if not lu:
                    failing.append("removed_source_stays_in_the_lifecycle_set_when_unregister_fails")
                    cex = cex or fmt_path(p)
    return result(not failing, witness, failing, cex, "", paths, cfg)


# ---------------------------------------------------------------- C08: re-1
def ob_re1_no_guards(ctx, tier):
    """no Ref/RefMut of poll, sources, lifecycle set or idles is alive while a source's
    process_events (and therefore any user callback) runs"""
    f, paths, cfg = de_paths_any_iteration(ctx)
    failing, cex, witness = [], "", False
    for p in paths:
        for pe in proc_events(p):
            witness = True
            if pe.guards:
                failing.append("loop_borrow_alive_during_process_events:" + ",".join(sorted(g[1] for g in pe.guards)))
                cex = cex or fmt_path(p, pe.idx + 1)
        # ... nor when the loop lets go of a dispatcher (the last reference may be this one: the source's destructor runs)
        # (the slot's own Option<Rc<..>> overwritten by PostAction::Remove is not the last reference: `disp` is a clone of it)
        for d_ in [e for e in p.trace if e.kind == "drop" and "EventDispatcher" in e.callee and e.callee.startswith("rc::Rc<")]:
            if d_.guards:
                failing.append("loop_borrow_alive_while_a_dispatcher_is_dropped")
                cex = cex or fmt_path(p, d_.idx + 1)
    return result(not failing, witness, failing, cex, "", paths, cfg)


# ---------------------------------------------------------------- C14: lc-2
def ob_lc2_order(ctx, tier):
    """before_sleep precedes the wait; before_handle_events follows it and precedes every
    process_events; a synthetic event is pushed with the returned (readiness, token), forces a
    zero timeout, and the iterator handed to before_handle_events is built from the polled
    events only"""
    f, paths, cfg = de_paths(ctx, first_loop=1)
    failing, cex, witness = [], "", False
    wit_syn = False
    for p in paths:
        bs = [e for e in p.trace if is_call(e, r"EventDispatcher<Data>>::before_sleep$")]
        bh = [e for e in p.trace if is_call(e, r"EventDispatcher<Data>>::before_handle_events$")]
        polls = [e for e in p.trace if is_call(e, r"sys::Poll::poll$")]
        pes = proc_events(p)
        if bs and polls:
            witness = True
            if not all(b.idx < polls[0].idx for b in bs):
                failing.append("before_sleep_after_wait")
                cex = cex or fmt_path(p)
        if bh:
            if not polls or not all(polls[-1].idx < b.idx for b in bh):
                failing.append("before_handle_events_before_wait")
                cex = cex or fmt_path(p)
            if pes and not all(b.idx < pes[0].idx for b in bh):
                failing.append("before_handle_events_after_a_process_events")
                cex = cex or fmt_path(p)
            # the iterator: EventIterator { inner: <[PollEvent]>::iter(&events), .. } with events = Ok payload of poll
            for b in bh:
                it = b.args[1]
                inner = it.fields[0] if isinstance(it, Agg) and it.fields else None
                src = [e for e in p.trace if e.ret is inner and e.kind == "call"]
                oknames = ["r%d@Ok" % q.idx for q in polls]
                if not src or "iter" not in src[0].callee or not any(nm in repr(src[0].args[0]) or nm in getattr(getattr(src[0].args[0], "obj", None), "name", "") for nm in oknames):
                    # follow one deref hop: the slice comes from Vec::deref(&events)
                    ok2 = False
                    if src:
                        a0 = src[0].args[0]
                        nm = getattr(getattr(a0, "obj", None), "name", "") if isinstance(a0, Ref) else repr(a0)
                        ok2 = any(o in nm for o in oknames)
                    if not ok2:
                        failing.append("event_iterator_not_built_from_polled_events")
                        cex = cex or fmt_path(p)
        # synthetic event
        for b in bs:
            if not isinstance(b.ret, Enum):
                continue
            try:
                opt = b.ret.payloads["Ok"][0]
            except Exception:
                continue
            some, _ = entails(ctx, p.pc, z3.And(dz(b.ret.disc) == 0, dz(opt.disc) == 1)) if isinstance(opt, Enum) else (False, None)
            if not some:
                continue
            wit_syn = True
            pushes = [e for e in p.trace[b.idx:] if is_call(e, r"Vec::<PollEvent>::push$")]
            if not pushes:
                failing.append("synthetic_event_not_queued")
                cex = cex or fmt_path(p)
                continue
            ev = pushes[0].args[1]
            tup = opt.payloads["Some"][0]
            if not (isinstance(ev, Agg) and isinstance(tup, (Agg, Sym)) and ev.fields[0] is (tup.fields[0] if isinstance(tup, Agg) else tup.fields.get(0))
                    and ev.fields[1] is (tup.fields[1] if isinstance(tup, Agg) else tup.fields.get(1))):
                failing.append("synthetic_event_not_the_returned_readiness_token")
                cex = cex or fmt_path(p)
            for q in polls:
                # the timeout is the Option<Duration> argument, wherever it sits in the parameter list
                tos = [a for a in q.args[1:] if isinstance(a, Enum) and "Duration" in (a.ty or "")] or [q.args[-1]]
                to = tos[0]
                zero = isinstance(to, Enum) and to.disc == 1 and "ZERO" in repr(to.payloads.get("Some", {}).get(0))
                if q.idx > b.idx and not zero:
                    failing.append("synthetic_event_does_not_force_zero_timeout")
                    cex = cex or fmt_path(p)
        # without a synthetic event the FIRST wait gets the caller's timeout, untouched (C12: nothing but a synthetic event
        # -- not queued idles, not the number of sources -- may shorten it; the clamp to the timers is Poll::poll's)
        any_syn = False
        for b in bs:
            try:
                opt = b.ret.payloads["Ok"][0]
                if isinstance(opt, Enum) and not entails(ctx, p.pc, z3.Or(dz(b.ret.disc) != 0, dz(opt.disc) == 0))[0]:
                    any_syn = True
            except Exception:
                any_syn = True
        if polls and not any_syn:
            q = polls[0]
            tos = [a for a in q.args[1:] if isinstance(a, Enum) and "Duration" in (a.ty or "")] or [q.args[-1]]
            to = tos[0]
            if not (isinstance(to, Enum) and (getattr(to, "name", "") == "a2" or "a2" in repr(to)) and not isinstance(to.disc, int)):
                failing.append("first_wait_does_not_get_the_callers_timeout")
                cex = cex or fmt_path(p)
    return result(not failing, witness and wit_syn, failing, cex, "synthetic witness=%s" % wit_syn, paths, cfg)


# ---------------------------------------------------------------- C15: err-1
def ob_err1(ctx, tier):
    """a dispatch whose batch holds one event returns Err exactly when that event's processing, or
    applying its post-action (reregister / unregister), failed: the error is neither swallowed nor
    invented, and there is no panic"""
    f, paths, cfg = de_paths_exit(ctx)
    failing, cex, witness = [], "", False
    for p in paths:
        pes = proc_events(p)
        if not pes or not isinstance(pes[0].ret, Enum) or p.status == "panic":
            continue
        pe = pes[0]
        is_err, _ = entails(ctx, p.pc, dz(pe.ret.disc) == 1)
        post = [e for e in p.trace[pe.idx + 1:] if is_call(e, r"EventDispatcher<Data>>::(reregister|unregister)$")]
        # the post-action call is the one made BEFORE the removed-source check (= before the second slot lookup)
        gets = [e for e in p.trace[pe.idx + 1:] if is_call(e, r"SourceList::<.*>::get$")]
        post_action_calls = [e for e in post if not gets or e.idx < gets[0].idx]
        post_failed = any(isinstance(e.ret, Enum) and entails(ctx, p.pc, dz(e.ret.disc) == 1)[0] for e in post_action_calls)
        if p.status != "return" or not isinstance(p.ret, Enum):
            failing.append("dispatch_of_one_event_does_not_return")
            cex = cex or fmt_path(p)
            continue
        got_err = p.ret.disc == 1 if isinstance(p.ret.disc, int) else entails(ctx, p.pc, dz(p.ret.disc) == 1)[0]
        got_ok = p.ret.disc == 0 if isinstance(p.ret.disc, int) else entails(ctx, p.pc, dz(p.ret.disc) == 0)[0]
        if is_err:
            witness = True
            if not got_err:
                failing.append("processing_error_not_returned")
                cex = cex or fmt_path(p)
        elif post_failed:
            if not got_err:
                failing.append("post_action_error_not_returned")
                cex = cex or fmt_path(p)
        elif not got_ok:
            failing.append("dispatch_reports_an_error_nobody_raised")
            cex = cex or fmt_path(p)
    return result(not failing, witness, failing, cex, "", paths, cfg)


# =====================================================================================
# generic helpers for the smaller functions
def run_fn(ctx, rx, unroll=0, inline=None, key=None, loop_bounds=None):
    k = ("fn", rx, unroll, key)
    if k not in _cache:
        cfg = ctx.cfg(unroll=unroll, inline=inline or [], max_paths=20000)
        if loop_bounds:
            cfg.loop_bounds.update(loop_bounds)
        _cache[k] = ctx.run(rx, cfg=cfg)
    return _cache[k]


def calls(p, rx, start=0):
    return [e for e in p.trace[start:] if is_call(e, rx)]


def ret_is(p, vname_idx):
    return p.status == "return" and isinstance(p.ret, Enum) and p.ret.disc == vname_idx


class Chk:
    """collects failures over paths"""

    def __init__(self):
        self.failing, self.cex, self.witness = [], "", False

    def fail(self, tag, p):
        self.failing.append(tag)
        self.cex = self.cex or (tag + "\n" + fmt_path(p))

    def res(self, paths, cfg, detail=""):
        return result(not self.failing, self.witness, self.failing, self.cex, detail, paths, cfg)


DISP = r"EventDispatcher<Data>>::"
ARG_TOKEN = "a2"


# ---------------------------------------------------------------- C06: rm-1
def ob_handle_remove(ctx, tier):
    """LoopHandle::remove: the slot is looked up with the caller's token; on a live slot the
    dispatcher is TAKEN out of the slot before unregister is called on it, exactly once, with the
    caller's token; a failing lookup or a vacant slot does nothing"""
    f, paths, cfg = run_fn(ctx, r"::remove\(_1: &LoopHandle")
    c = Chk()
    for p in paths:
        gm = calls(p, r"SourceList::<.*>::get_mut$")
        if len(gm) != 1:
            c.fail("remove_lookup_count", p)
            continue
        tk = [e for e in p.trace if e.kind == "take"]
        un = calls(p, DISP + "unregister$")
        others = calls(p, DISP + r"(register|reregister|process_events)$")
        if others:
            c.fail("remove_calls_other_dispatcher_methods", p)
        if "a2.0" not in repr(gm[0].args[1]):
            c.fail("remove_lookup_not_with_callers_token", p)
        live, _ = entails(ctx, p.pc, dz(gm[0].ret.disc) == 0)
        if un:
            c.witness = True
            if len(un) != 1:
                c.fail("remove_unregisters_more_than_once", p)
            if not tk or tk[0].idx > un[0].idx:
                c.fail("remove_unregisters_before_clearing_slot", p)
            if not live:
                c.fail("remove_acts_on_dead_token", p)
            if tk and not (isinstance(un[0].args[0], Ref) and "@Some.0" in repr(un[0].args[0]) and ("r%d@Ok" % gm[0].idx) in repr(un[0].args[0])):
                c.fail("remove_unregisters_another_dispatcher", p)
            if "a2" not in repr(un[0].args[3]):
                c.fail("remove_unregister_not_with_callers_token", p)
            # the source list is NOT borrowed while foreign code runs: neither while the source is unregistered nor when the
            # loop's reference to it is dropped (its destructor may come back to the loop: a future dropped with its
            # executor may own an Async adapter, whose Drop frees its own slot)
            if any("SourceList" in str(g) for g in un[0].guards):
                c.fail("source_list_borrowed_while_the_removed_source_is_unregistered", p)
            for d_ in [e for e in p.trace if e.kind == "drop" and "EventDispatcher" in e.callee and e.idx > un[0].idx]:
                if any("SourceList" in str(g) for g in d_.guards):
                    c.fail("source_list_borrowed_while_the_removed_source_is_dropped", p)
                # round 9 (seed C16-6): nor the poller or the lifecycle set -- an Async adapter owned by the removed source
                # deregisters its fd in Drop through a try_borrow_mut of the poller and silently skips it when that fails
                if any(("Poll" in str(g) or "AdditionalLifecycle" in str(g)) for g in d_.guards):
                    c.fail("poller_borrowed_while_the_removed_source_is_dropped", p)
            # a removed source is never left in the lifecycle set (whose entries must resolve to occupied slots: dispatch
            # treats anything else as unreachable): when its unregistration FAILED -- the dispatcher drops the entry only
            # on success -- the entry is dropped here
            if p.status == "return" and isinstance(un[0].ret, Enum) and entails(ctx, p.pc, dz(un[0].ret.disc) == 1)[0]:
                lu = [e for e in calls(p, r"AdditionalLifecycleEventsSet::unregister$") if e.idx > un[0].idx]
                if not lu or "a2" not in repr(lu[0].args[1]):
                    c.fail("removed_source_stays_in_the_lifecycle_set_when_unregister_fails", p)
            # removal is final whatever unregister answers: when remove returns, the slot is vacant (so the token is dead,
            # the loop's reference is released and the slot reusable), also when the poller call failed
            if p.status == "return":
                try:
                    src = gm[0].ret.payloads["Ok"][0].pointee.value.fields[1]
                    vacant = isinstance(src, Enum) and (src.disc == 0 if isinstance(src.disc, int) else entails(ctx, p.pc, dz(src.disc) == 0)[0])
                except Exception:
                    raise Unsupported("slot of the removed source not found in the final state")
                if not vacant:
                    c.fail("removed_source_left_in_its_slot", p)
        else:
            # nothing unregistered: the lookup failed or the slot was vacant
            if tk:
                src_d = disc_of(tk[0].ret)
                ok, _ = entails(ctx, p.pc, dz(src_d) == 0)
                if not ok:
                    c.fail("remove_drops_source_without_unregistering", p)
    return c.res(paths, cfg)


# ---------------------------------------------------------------- C06 / C07 / C09: rm-2, dis-1..2, pa-3
def _handle_op(ctx, name, method, pending_variant):
    f, paths, cfg = run_fn(ctx, r"::%s\(_1: &LoopHandle" % name)
    c = Chk()
    for p in paths:
        g = calls(p, r"SourceList::<.*>::get$")
        m = calls(p, DISP + method + "$")
        allm = calls(p, DISP + r"\w+$")
        sets = [e for e in p.trace if pending_cell(e)]
        if len(g) != 1 or "a2.0" not in repr(g[0].args[1]):
            c.fail(name + "_lookup_not_with_callers_token", p)
            continue
        dead, _ = entails(ctx, p.pc, dz(g[0].ret.disc) == 1)
        if dead:
            if allm or sets:
                c.fail(name + "_acts_on_dead_token", p)
            if not (p.status == "return" and isinstance(p.ret, Enum) and p.ret.disc == 1):
                c.fail(name + "_dead_token_not_an_error", p)
            continue
        if len(allm) > 1 or (allm and not m):
            c.fail(name + "_calls_wrong_dispatcher_method", p)
        if not m:
            # vacant slot or (disable) stale-generation check: must be an error, no effect
            if sets:
                c.fail(name + "_defers_without_dispatcher", p)
            if p.status == "return" and not (isinstance(p.ret, Enum) and p.ret.disc == 1):
                c.fail(name + "_vacant_slot_not_an_error", p)
            continue
        c.witness = True
        e = m[0]
        if not (("r%d@Ok" % g[0].idx) in repr(e.args[0]) and "@Some.0" in repr(e.args[0])):
            c.fail(name + "_on_another_dispatcher", p)
        if method in ("register", "reregister"):
            tf = calls(p, r"TokenFactory::new$")
            if not tf or ("r%d@Ok" % g[0].idx) not in repr(tf[0].args[0]):
                c.fail(name + "_token_factory_not_from_slot_token", p)
        else:
            if "a2" not in repr(e.args[3]):
                c.fail(name + "_unregister_not_with_callers_token", p)
        # deferred request: set exactly when the dispatcher said Ok(false)
        if pending_variant is not None:
            rd = dz(e.ret.disc)
            okv = e.ret.payloads.get("Ok", {}).get(0)
            if sets:
                if len(sets) != 1 or sets[0].callee != "set" or not (isinstance(sets[0].args[1], Enum) and sets[0].args[1].disc == pending_variant):
                    c.fail(name + "_defers_wrong_action", p)
                ok, _ = entails(ctx, p.pc, z3.And(rd == 0, z3.Not(okv))) if okv is not None and z3.is_bool(okv) else (False, None)
                if not ok:
                    c.fail(name + "_defers_although_dispatcher_was_free", p)
            else:
                if p.status == "return" and isinstance(p.ret, Enum) and p.ret.disc == 0 and okv is not None and z3.is_bool(okv):
                    ok, _ = entails(ctx, p.pc, okv)
                    if not ok:
                        c.fail(name + "_loses_request_made_inside_callback", p)
        elif sets:
            c.fail(name + "_touches_pending_action", p)
    return c.res(paths, cfg)


def ob_handle_disable(ctx, tier):
    """LoopHandle::disable: dead or vacant tokens give Err(InvalidToken) with no effect; otherwise
    unregister on the looked-up dispatcher with the caller's token; pending_action = Disable iff
    the dispatcher reported Ok(false) (it is being dispatched)"""
    return _handle_op(ctx, "disable", "unregister", 2)


def ob_handle_update(ctx, tier):
    """LoopHandle::update: as disable, with reregister / TokenFactory::new(slot token) and
    pending_action = Reregister iff Ok(false)"""
    return _handle_op(ctx, "update", "reregister", 1)


def ob_handle_enable(ctx, tier):
    """LoopHandle::enable: dead or vacant tokens give Err(InvalidToken); otherwise register on the
    looked-up dispatcher with TokenFactory::new(slot token): same slot, same generation"""
    return _handle_op(ctx, "enable", "register", None)


# ---------------------------------------------------------------- C08: re-2
HANDLE_FNS = [r"::remove\(_1: &LoopHandle", r"::disable\(_1: &LoopHandle", r"::update\(_1: &LoopHandle",
              r"::enable\(_1: &LoopHandle", r"::register_dispatcher\(_1: &LoopHandle", r"::insert_idle\(_1: &LoopHandle",
              r"^fn io::<impl at [^>]*>::new\(_1: Rc<LoopInner", r"^fn io::<impl at [^>]*>::kill\("]


def ob_re2_no_double_borrow(ctx, tier):
    """no handle operation borrows a RefCell of the loop while it already holds a guard of the
    same cell (with re-1: none of them can double-borrow when called from a callback)"""
    c = Chk()
    allp = []
    cfg = None
    for rx in HANDLE_FNS:
        f, paths, cfg = run_fn(ctx, rx)
        allp += paths
        for p in paths:
            for e in p.trace:
                if e.kind == "borrow":
                    c.witness = True
                    cid = e.info.get("cell_id")
                    held = [g for g in e.guards if g[3] == cid]
                    if held and (e.info.get("mut") or any("mut" in g[2] for g in held)) and not e.callee.startswith("try"):
                        c.fail("double_borrow_in_" + f.name.split("::")[-1], p)
    return c.res(allp, cfg)


# ---------------------------------------------------------------- C15: reg-1
def ob_register_dispatcher(ctx, tier):
    """register_dispatcher: the dispatcher is registered with TokenFactory::new(slot token); on a
    registration error the slot is vacated again and the error returned; on success the returned
    token is the slot's token"""
    f, paths, cfg = run_fn(ctx, r"::register_dispatcher\(_1: &LoopHandle")
    c = Chk()
    for p in paths:
        ve = calls(p, r"SourceList::<.*>::vacant_entry$")
        rg = calls(p, DISP + "register$")
        if p.status == "panic":
            continue
        if len(ve) != 1 or len(rg) != 1:
            c.fail("register_dispatcher_shape", p)
            continue
        slot = ve[0].ret.pointee.value if isinstance(ve[0].ret, Sym) and ve[0].ret.pointee else None
        src = slot.fields.get(1) if isinstance(slot, Sym) else None
        tf = calls(p, r"TokenFactory::new$")
        if not tf or ("*r%d.0" % ve[0].idx) not in repr(tf[0].args[0]):
            c.fail("register_dispatcher_token_not_the_slots", p)
        # the slot list is only asked for the vacant entry: nothing else (no other lookup, no structural change)
        other = [e for e in calls(p, r"SourceList::<.*>::\w+$") if not re.search(r"::(vacant_entry|get|len|is_empty|iter)$", e.callee)]
        if other:
            c.fail("register_dispatcher_changes_the_slot_list_beyond_its_entry", p)
        failed, _ = entails(ctx, p.pc, dz(rg[0].ret.disc) == 1)
        if failed:
            c.witness = True
            if not (isinstance(src, Enum) and src.disc == 0):
                c.fail("failed_registration_leaves_slot_occupied", p)
            if not ret_is(p, 1):
                c.fail("failed_registration_not_reported", p)
        else:
            if not (isinstance(src, Enum) and src.disc == 1):
                c.fail("successful_registration_slot_not_occupied", p)
            if not ret_is(p, 0):
                c.fail("successful_registration_not_ok", p)
    return c.res(paths, cfg)


# ---------------------------------------------------------------- C13: idle-1..3
IDLES_TY = "IdleDispatcher"


def ob_idles(ctx, tier):
    """dispatch(): idles run only after dispatch_events returned Ok.  dispatch_idles: the list is
    taken (mem::take under a short borrow) BEFORE the first idle runs, every taken element gets
    one dispatch in iteration order, no guard of the idles list is alive during a dispatch, and
    the list is not touched again afterwards (idles inserted by idles stay queued)"""
    c = Chk()
    f, paths, cfg = run_fn(ctx, r"::dispatch\(_1: &mut EventLoop")
    for p in paths:
        de = calls(p, r"::dispatch_events$")
        di = calls(p, r"::dispatch_idles$")
        if len(de) != 1:
            c.fail("dispatch_shape", p)
            continue
        err, _ = entails(ctx, p.pc, dz(de[0].ret.disc) == 1)
        if err and di:
            c.fail("idles_run_after_failed_event_dispatch", p)
        if not err:
            if len(di) != 1 or di[0].idx < de[0].idx:
                c.fail("idles_not_run_once_after_events", p)
            if not ret_is(p, 0):
                c.fail("dispatch_ok_not_returned", p)
        elif not ret_is(p, 1):
            c.fail("dispatch_error_not_returned", p)
    f2, paths2, cfg2 = run_fn(ctx, r"::dispatch_idles\(_1: &mut EventLoop", unroll=1)
    for p in paths2:
        tk = [e for e in p.trace if e.kind == "mem_take"]
        ds = calls(p, r"IdleDispatcher<Data>>::dispatch$")
        if len(tk) != 1:
            c.fail("idle_list_not_taken_exactly_once", p)
            continue
        for d in ds:
            c.witness = True
            if d.idx < tk[0].idx:
                c.fail("idle_runs_before_list_is_taken", p)
            if any(IDLES_TY in g[1] and "Vec<" in g[1] for g in d.guards):
                c.fail("idle_list_borrowed_during_idle_callback", p)
        if ds:
            later = [e for e in p.trace[ds[0].idx:] if e.kind == "borrow" and "Vec<" in e.info.get("cell_ty", "") and IDLES_TY in e.info.get("cell_ty", "")]
            if later:
                c.fail("idle_list_touched_after_idles_started", p)
        # each dispatched element is an element handed out by the iterator, in order, once
        nx = calls(p, r"IntoIter<.*IdleDispatcher.*> as Iterator>::next$")
        got = []
        for d in ds:
            owner = [n for n in nx if ("r%d@Some.0" % n.idx) in repr(d.args[0])]
            if len(owner) != 1:
                c.fail("idle_dispatch_not_on_an_iterated_element", p)
            else:
                got.append(owner[0].idx)
        if got != sorted(set(got)):
            c.fail("idle_dispatched_twice_or_out_of_order", p)
        somes = [n for n in nx if isinstance(n.ret, Enum) and entails(ctx, p.pc, dz(n.ret.disc) == 1)[0]]
        if not p.status.startswith("cut") and len(somes) != len(ds):
            c.fail("idle_skipped", p)
    return c.res(paths + paths2, cfg2)


def ob_insert_idle(ctx, tier):
    """insert_idle pushes the new idle at the END of the list (Vec::push under a short borrow) and
    returns a handle to the same shared slot; the wrapper runs the FnOnce at most once
    (Option::take before the call); Idle::cancel empties the shared slot"""
    c = Chk()
    f, paths, cfg = run_fn(ctx, r"::insert_idle\(_1: &LoopHandle")
    for p in paths:
        if p.status == "panic":
            continue
        pu = calls(p, r"Vec::<.*IdleDispatcher.*>::push$")
        ins = calls(p, r"Vec::<.*>::insert$")
        if len(pu) != 1 or ins:
            c.fail("idle_not_appended_at_end", p)
            continue
        c.witness = True
        if not any(IDLES_TY in g[1] for g in pu[0].guards):
            c.fail("idle_push_shape", p)
    # the wrapper closure
    cl = [fn for fn in ctx.fns.values() if re.search(r"::insert_idle::\{closure#0\}", fn.name)]
    if len(cl) != 1:
        raise Unsupported("insert_idle closure not found")
    fcl, cpaths, ccfg = run_fn(ctx, re.escape(cl[0].name) + r"\(")
    for p in cpaths:
        tk = [e for e in p.trace if e.kind == "take"]
        co = [e for e in p.trace if e.kind in ("call", "callback") and re.search(r"FnOnce|call_once|closure:", e.callee)]
        if len(tk) != 1:
            c.fail("idle_wrapper_does_not_take_the_closure", p)
        if len(co) > 1:
            c.fail("idle_closure_called_more_than_once", p)
        if co and (not tk or tk[0].idx > co[0].idx):
            c.fail("idle_closure_called_without_taking_it", p)
    f3, p3, cfg3 = run_fn(ctx, r"^fn sources::<impl at [^>]*>::cancel\(_1: Idle")
    for p in p3:
        if not calls(p, r"CancellableIdle>::cancel$"):
            c.fail("idle_cancel_does_not_reach_the_slot", p)
    f4, p4, cfg4 = run_fn(ctx, r"^fn sources::<impl at [^>]*>::cancel\(_1: &mut Option<F>")
    for p in p4:
        if not [e for e in p.trace if e.kind == "take"]:
            c.fail("idle_cancel_does_not_empty_the_slot", p)
    # dropping the handle does not cancel: there is no Drop impl for Idle in the dump
    if any(re.search(r"as Drop>::drop\(_1: &mut Idle", fn.header) or re.search(r"::drop\(_1: &mut (sources::)?Idle<", fn.header) for fn in ctx.fns.values()):
        c.failing.append("idle_handle_has_a_drop_impl")
    return c.res(paths + cpaths + p3 + p4, cfg)


# =====================================================================================
# inlining rules: (callee regex at the call site, regex on the header of the body to inline)
INL_PING = [
    (r"^<(eventfd::)?PingSource as (sources::)?EventSource>::process_events::<", r"::process_events\(_1: &mut eventfd::PingSource"),
    (r"^<(sources::generic::)?Generic<ArcAsFd> as (sources::)?EventSource>::process_events::<", r"::process_events\(_1: &mut sources::generic::Generic<F, E>"),
    (r"^drain_ping$", r"^fn drain_ping\("),
    (r"^send_ping$", r"^fn send_ping\("),
    (r"^(eventfd::)?Ping::ping$", r"::ping\(_1: &eventfd::Ping\)"),
]
PING_PE = r"::process_events\(_1: &mut eventfd::PingSource"


def ok_payload_disc(v):
    """discriminant of the PostAction inside an Ok(..) return value"""
    if isinstance(v, Enum) and "Ok" in v.payloads and 0 in v.payloads["Ok"]:
        return disc_of(v.payloads["Ok"][0])
    return None


def is_cb(e):
    return e.kind == "callback" or (e.kind == "call" and e.callee.startswith("closure:"))


def atomics(p, op=None, field=None):
    out = []
    for e in p.trace:
        m = re.match(r"^Atomic(?:Bool)?::<bool>::(\w+)$|^AtomicBool::(\w+)$", e.callee) if e.kind == "call" else None
        if not m:
            continue
        o = m.group(1) or m.group(2)
        if op and o != op:
            continue
        if field is not None and not repr(e.args[0]).endswith("." + str(field)):
            continue
        out.append(e)
    return out


def bool_is(v, val):
    return z3.is_true(z3.simplify(v)) if val else z3.is_false(z3.simplify(v))


def struct_fields(ctx, name):
    """field names of `struct name { .. }` in declaration order (= drop order, = MIR field index)"""
    import glob, os
    for f in glob.glob(os.path.join(ctx.src_dir, "**", "*.rs"), recursive=True):
        t = re.sub(r"//[^\n]*", "", open(f).read())
        m = re.search(r"\bstruct\s+%s\s*(?:<[^>{]*>)?\s*\{([^}]*)\}" % re.escape(name), t)
        if m:
            out = []
            for part in m.group(1).split(","):
                part = re.sub(r"#\[[^\]]*\]", "", part).strip()
                mm = re.match(r"(?:pub(?:\([^)]*\))?\s+)?(\w+)\s*:", part)
                if mm:
                    out.append(mm.group(1))
            return out
    raise Unsupported("struct %s not found in the source" % name)


# ---------------------------------------------------------------- C11: run / block_on / LoopSignal
def ob_run(ctx, tier):
    """run(): stop is reset first; every iteration starts with a load of stop; Ok is returned only
    right after a load that returned true; a dispatch error is returned at once; the per-iteration
    closure runs after every successful dispatch"""
    stop_i = struct_fields(ctx, "Signals").index("stop")
    f, paths, cfg = run_fn(ctx, r"::run\(_1: &mut EventLoop", unroll=1)
    c = Chk()
    for p in paths:
        at = atomics(p)
        if not at or at[0].callee.split("::")[-1] != "store" or not bool_is(at[0].args[1], False) or not repr(at[0].args[0]).endswith(".%d" % stop_i):
            c.fail("run_does_not_reset_stop_first", p)
            continue
        if any(a.callee.split("::")[-1] in ("store", "swap") for a in at[1:]):
            c.fail("run_writes_stop_inside_the_loop", p)
        ds = calls(p, r"EventLoop::<.*>::dispatch::<")
        loads = atomics(p, "load", stop_i)
        # an iteration is a whole dispatch (events, then -- if they succeeded -- the idle callbacks, unconditionally: C13):
        # either through dispatch(), or dispatch_events() directly followed by dispatch_idles()
        for de_ in calls(p, r"::dispatch_events$"):
            ok_ = entails(ctx, p.pc, dz(de_.ret.disc) == 0)[0] if isinstance(de_.ret, Enum) else False
            nxt_ = [e for e in p.trace[de_.idx + 1:] if e.kind in ("call", "callback") or (e.kind == "call" and "Atomic" in e.callee)]
            nxt_ = [e for e in p.trace[de_.idx + 1:] if e.kind in ("call", "callback")]
            if ok_ and p.status != "panic" and (not nxt_ or not re.search(r"::dispatch_idles$", nxt_[0].callee)):
                c.fail("events_dispatched_without_running_the_idles_next", p)
        if not ds and not calls(p, r"::dispatch_events$") and p.status == "return" and isinstance(p.ret, Enum) and p.ret.disc == 1:
            c.fail("run_error_without_dispatch", p)
        ds = ds + calls(p, r"::dispatch_events$")
        ds.sort(key=lambda e: e.idx)
        for d in ds:
            prev = [l for l in loads if l.idx < d.idx]
            if not prev or (ds.index(d) > 0 and prev[-1].idx < ds[ds.index(d) - 1].idx):
                c.fail("dispatch_without_checking_stop", p)
        if p.status == "return" and isinstance(p.ret, Enum):
            c.witness = True
            if p.ret.disc == 0:
                last = loads[-1] if loads else None
                if last is None or any(e.idx > last.idx and e.kind in ("call", "callback") for e in p.trace) or \
                   not entails(ctx, p.pc, last.ret)[0]:
                    c.fail("run_returns_ok_without_stop_request", p)
            else:
                if not ds or not entails(ctx, p.pc, dz(ds[-1].ret.disc) == 1)[0]:
                    c.fail("run_error_without_dispatch_error", p)
        for d in ds:
            ok = entails(ctx, p.pc, dz(d.ret.disc) == 0)[0]
            nxt = [e for e in p.trace[d.idx + 1:] if e.kind in ("call", "callback")]
            if ok and (not nxt or not is_cb(nxt[0])) and p.status != "panic":
                c.fail("per_iteration_closure_not_called_after_dispatch", p)
    return c.res(paths, cfg)


def ob_block_on(ctx, tier):
    """block_on(): stop reset and future_ready set first; per iteration: load(stop) (true => None),
    then future_ready is consumed with an atomic swap(false) and the future is polled iff it
    was set; Ready => Some(output) at once; otherwise dispatch_events(None), idles, closure.
    future_ready is never written false by the loop except through that swap."""
    fs = struct_fields(ctx, "Signals")
    stop_i, fr_i = fs.index("stop"), fs.index("future_ready")
    f, paths, cfg = run_fn(ctx, r"::block_on\(_1: &mut EventLoop", unroll=1)
    c = Chk()
    for p in paths:
        at = atomics(p)
        if len(at) < 2 or not (at[0].callee.endswith("store") and repr(at[0].args[0]).endswith(".%d" % stop_i) and bool_is(at[0].args[1], False)
                               and at[1].callee.endswith("store") and repr(at[1].args[0]).endswith(".%d" % fr_i) and bool_is(at[1].args[1], True)):
            c.fail("block_on_initialisation", p)
            continue
        polls = calls(p, r" as Future>::poll$")
        for a in at[2:]:
            on_fr = repr(a.args[0]).endswith(".%d" % fr_i)
            op = a.callee.split("::")[-1]
            if on_fr and op == "store" and bool_is(a.args[1], False):
                c.fail("future_ready_cleared_by_plain_store", p)
            if on_fr and op == "load":
                c.fail("future_ready_read_without_consuming_it", p)
            if not on_fr and op != "load":
                c.fail("block_on_writes_stop_inside_the_loop", p)
        swaps = [a for a in atomics(p, "swap", fr_i)]
        for q in polls:
            c.witness = True
            sw = [s for s in swaps if s.idx < q.idx]
            if not sw or not bool_is(sw[-1].args[1], False) or not entails(ctx, p.pc, sw[-1].ret)[0]:
                c.fail("future_polled_without_consuming_a_wake", p)
        for s_ in swaps:
            woke = entails(ctx, p.pc, s_.ret)[0]
            nxt = [e for e in p.trace[s_.idx + 1:] if e.kind in ("call", "callback") and "as_mut" not in e.callee]
            if woke and (not nxt or not re.search(r" as Future>::poll$", nxt[0].callee)) and p.status != "panic":
                c.fail("wake_not_followed_by_a_poll", p)
        if p.status == "return" and isinstance(p.ret, Enum) and p.ret.disc == 0:
            out = p.ret.payloads["Ok"][0]
            od = disc_of(out)
            some = entails(ctx, p.pc, dz(od) == 1)[0]
            if some:
                if not polls or not entails(ctx, p.pc, dz(polls[-1].ret.disc) == 0)[0]:
                    c.fail("some_returned_without_ready_future", p)
            else:
                loads = atomics(p, "load", stop_i)
                if not loads or not entails(ctx, p.pc, loads[-1].ret)[0]:
                    c.fail("none_returned_without_stop_request", p)
        for q in polls:
            ready = entails(ctx, p.pc, dz(q.ret.disc) == 0)[0]
            if ready and not (p.status == "return" and not [e for e in p.trace[q.idx + 1:] if e.kind in ("call", "callback")]):
                c.fail("ready_future_not_returned_at_once", p)
            pending = entails(ctx, p.pc, dz(q.ret.disc) == 1)[0]
            if pending:
                de = calls(p, r"::dispatch_events$", q.idx)
                if not de or not (isinstance(de[0].args[1], Enum) and de[0].args[1].disc == 0):
                    c.fail("pending_future_not_followed_by_blocking_dispatch", p)
    return c.res(paths, cfg)


def ob_signal(ctx, tier):
    """LoopSignal::stop only stores stop=true; wakeup only notifies the poller; the block_on waker
    stores future_ready=true BEFORE it notifies"""
    fs = struct_fields(ctx, "Signals")
    stop_i, fr_i = fs.index("stop"), fs.index("future_ready")
    c = Chk()
    allp = []
    f, paths, cfg = run_fn(ctx, r"^fn loop_logic::<impl at [^>]*>::stop\(_1: &LoopSignal")
    allp += paths
    for p in paths:
        at = atomics(p)
        if len(at) != 1 or not at[0].callee.endswith("store") or not bool_is(at[0].args[1], True) or not repr(at[0].args[0]).endswith(".%d" % stop_i):
            c.fail("stop_does_not_store_true_into_stop", p)
        c.witness = True
    f, paths, cfg = run_fn(ctx, r"^fn loop_logic::<impl at [^>]*>::wakeup\(_1: &LoopSignal")
    allp += paths
    for p in paths:
        if not calls(p, r"Notifier::notify$") or atomics(p):
            c.fail("wakeup_does_not_notify", p)
    f, paths, cfg = run_fn(ctx, r"^fn sys::<impl at [^>]*>::notify\(_1: &Notifier")
    allp += paths
    for p in paths:
        if not calls(p, r"Poller::notify$"):
            c.fail("notifier_does_not_reach_the_poller", p)
    for nm in ("wake", "wake_by_ref"):
        f, paths, cfg = run_fn(ctx, r"::block_on::<impl at [^>]*>::%s\(" % nm)
        allp += paths
        for p in paths:
            at = atomics(p)
            no = calls(p, r"Notifier::notify$")
            if len(at) != 1 or not at[0].callee.endswith("store") or not bool_is(at[0].args[1], True) or not repr(at[0].args[0]).endswith(".%d" % fr_i):
                c.fail("waker_does_not_set_future_ready", p)
            elif not no or no[0].idx < at[0].idx:
                c.fail("waker_notifies_before_setting_future_ready", p)
    return c.res(allp, cfg)


# ---------------------------------------------------------------- C04: channel
MPSC = r"std::sync::mpsc::(Sync)?Sender::<.*>::"


def ob_chan_send(ctx, tier):
    """Sender::send enqueues first and pings iff the enqueue succeeded; SyncSender::try_send pings
    iff Ok or Full; SyncSender::send = try_send, and on Full a blocking enqueue followed by a
    ping; PingOnDrop pings; in both sender structs the queue handle is declared (= dropped)
    before the wake guard"""
    c = Chk()
    allp = []
    f, paths, cfg = run_fn(ctx, r"::send\(_1: &channel::Sender<T>")
    allp += paths
    for p in paths:
        en = calls(p, MPSC + "send$")
        pg = calls(p, r"Ping::ping$")
        if len(en) != 1:
            c.fail("send_shape", p)
            continue
        c.witness = True
        ok = entails(ctx, p.pc, dz(en[0].ret.disc) == 0)[0]
        if ok and (len(pg) != 1 or pg[0].idx < en[0].idx):
            c.fail("send_without_wakeup_after_enqueue", p)
        if not ok and pg:
            c.fail("wakeup_for_failed_send", p)
        if (ok and not ret_is(p, 0)) or (not ok and not ret_is(p, 1)):
            c.fail("send_result_not_passed_through", p)
    f, paths, cfg = run_fn(ctx, r"::try_send\(_1: &channel::SyncSender<T>")
    allp += paths
    for p in paths:
        en = calls(p, MPSC + "try_send$")
        pg = calls(p, r"Ping::ping$")
        if len(en) != 1:
            c.fail("try_send_shape", p)
            continue
        r = en[0].ret
        ok = entails(ctx, p.pc, dz(r.disc) == 0)[0]
        full = False
        if not ok and "Err" in r.payloads:
            full = entails(ctx, p.pc, dz(disc_of(r.payloads["Err"][0])) == 0)[0]
        if (ok or full) != (len(pg) == 1) or (pg and pg[0].idx < en[0].idx):
            c.fail("try_send_wakeup_iff_ok_or_full", p)
    f, paths, cfg = run_fn(ctx, r"::send\(_1: &channel::SyncSender<T>")
    allp += paths
    for p in paths:
        ts = calls(p, r"SyncSender::<T>::try_send$")
        bl = calls(p, MPSC + "send$")
        pg = calls(p, r"Ping::ping$")
        if len(ts) != 1 or (ts[0].callee.startswith("std::")):
            c.fail("sync_send_does_not_try_first", p)
            continue
        r = ts[0].ret
        full = "Err" in r.payloads and entails(ctx, p.pc, z3.And(dz(r.disc) == 1, dz(disc_of(r.payloads["Err"][0])) == 0))[0]
        if full:
            if len(bl) != 1:
                c.fail("sync_send_full_does_not_block", p)
            elif entails(ctx, p.pc, dz(bl[0].ret.disc) == 0)[0] and (not pg or pg[0].idx < bl[0].idx):
                c.fail("sync_send_blocking_enqueue_without_wakeup", p)
        elif bl:
            c.fail("sync_send_blocks_without_full", p)
    f, paths, cfg = run_fn(ctx, r"::drop\(_1: &mut PingOnDrop\)")
    allp += paths
    for p in paths:
        if len(calls(p, r"Ping::ping$")) != 1:
            c.fail("ping_on_drop_does_not_ping", p)
    for st_ in ("Sender", "SyncSender"):
        flds = None
        import glob, os
        t = re.sub(r"//[^\n]*", "", open(os.path.join(ctx.src_dir, "sources", "channel.rs")).read())
        m = re.search(r"\bstruct\s+%s\s*<T>\s*\{([^}]*)\}" % st_, t)
        if not m:
            raise Unsupported("struct %s<T>" % st_)
        names = re.findall(r"(\w+)\s*:", m.group(1))
        if names.index("sender") > names.index("ping"):
            c.failing.append("wake_guard_dropped_before_queue_handle_in_" + st_)
    return c.res(allp, cfg)


CHAN_PE = r"::process_events\(_1: &mut Channel<T>"


def ob_chan_process(ctx, tier):
    """Channel::process_events (ping source and closures inlined): one try_recv per iteration;
    Ok(v) => callback(Msg(v)); Empty => stop without callback; Disconnected => exactly one
    callback(Closed), stop, and the source returns Remove; nothing after Closed; if the batch limit
    ends the loop (neither Empty nor Disconnected seen) the source pings itself and returns
    Continue; the batch limit is min(capacity+1 (saturating), 1024) >= 1"""
    c = Chk()
    f, paths, cfg = run_fn(ctx, CHAN_PE, unroll=1, inline=INL_PING, key="chan")
    n_self = 0
    for p in paths:
        if p.status == "panic":
            continue
        tr = calls(p, r"mpsc::Receiver::<T>::try_recv$")
        cbs = [e for e in p.trace if is_cb(e) and e.args and any(isinstance(a, Enum) and enum_name(a) in ("Msg", "Closed") for a in e.args)]
        closed = [e for e in cbs if any(isinstance(a, Enum) and enum_name(a) == "Closed" for a in e.args)]
        nexts = [e for e in p.trace if e.kind == "iter_next"]
        if tr:
            c.witness = True
        # the queue is only touched for an event the inner ping source ACCEPTED (its Generic matched the token -- which
        # unregister() clears, that is what silences a disabled channel within the batch it was disabled in -- and the
        # eventfd counter was read): no dequeue and no callback on a path without that read
        rd = calls(p, r"rustix::io::read")
        if (tr or cbs) and (not rd or rd[0].idx > (tr + cbs)[0].idx if (tr or cbs) else False):
            first = min(e.idx for e in tr + cbs)
            if not rd or rd[0].idx > first:
                c.fail("queue_drained_for_an_event_the_ping_source_did_not_accept", p)
        # each try_recv outcome
        for t in tr:
            r = t.ret
            okm = entails(ctx, p.pc, dz(r.disc) == 0)[0]
            after = [e for e in p.trace[t.idx + 1:] if e.kind in ("call", "callback", "iter_next")]
            if okm:
                if not after or not (is_cb(after[0]) and any(isinstance(a, Enum) and enum_name(a) == "Msg" for a in after[0].args)):
                    c.fail("message_not_delivered", p)
                else:
                    msg = [a for a in after[0].args if isinstance(a, Enum) and enum_name(a) == "Msg"][0]
                    if msg.payloads["Msg"][0] is not r.payloads["Ok"][0]:
                        c.fail("delivered_message_is_not_the_received_one", p)
            else:
                ed = disc_of(r.payloads["Err"][0]) if "Err" in r.payloads else None
                empty = ed is not None and entails(ctx, p.pc, dz(ed) == 0)[0]
                if empty:
                    if any(e.kind == "iter_next" or re.search(r"try_recv$", e.callee) or is_cb(e) for e in after if e.idx < (after[-1].idx + 1) and (e.kind != "call" or "try_recv" in e.callee)):
                        c.fail("processing_continues_after_empty", p)
                else:
                    if not after or not (is_cb(after[0]) and after[0] in closed):
                        c.fail("closed_not_delivered_on_disconnect", p)
                    if any(e.kind == "iter_next" or is_cb(e) or re.search(r"try_recv$", e.callee) for e in after[1:]):
                        c.fail("events_after_closed", p)
        if len(closed) > 1:
            c.fail("closed_delivered_twice", p)
        if p.status != "return" or not isinstance(p.ret, Enum) or p.ret.disc != 0:
            continue
        pa = ok_payload_disc(p.ret)
        selfping = [e for e in calls(p, r"rustix::io::write") if True]
        if closed:
            if not entails(ctx, p.pc, dz(pa) == 3)[0]:
                c.fail("closed_channel_not_removed", p)
        # exhaustion: the last iter_next returned None and no Empty/Disconnected was seen
        if nexts and nexts[-1].callee == "None":
            n_self += 1
            if not selfping:
                c.fail("batch_limit_reached_without_self_wakeup", p)
            if not entails(ctx, p.pc, dz(pa) == 0)[0]:
                c.fail("batch_limit_reached_but_not_continue", p)
        elif selfping and not closed:
            pass
    # the batch limit value
    rng = None
    for p in paths:
        for e in p.trace:
            if e.kind == "iter_next" and isinstance(e.args[0], Ref):
                try:
                    rv = e.args[0].obj.value
                    rng = rv.fields[1] if isinstance(rv, Agg) else None
                except Exception:
                    rng = None
                if rng is not None:
                    break
        if rng is not None:
            break
    if rng is None or not z3.is_bv(rng):
        c.failing.append("batch_limit_not_found")
    else:
        s = z3.Solver()
        cap = [v for v in z3util_vars(rng)]
        if len(cap) != 1:
            c.failing.append("batch_limit_depends_on_%d_values" % len(cap))
        else:
            cp = cap[0]
            ref = z3.If(z3.ULE(z3.If(cp == z3.BitVecVal(2**64 - 1, 64), cp, cp + 1), z3.BitVecVal(1024, 64)),
                        z3.If(cp == z3.BitVecVal(2**64 - 1, 64), cp, cp + 1), z3.BitVecVal(1024, 64))
            s.add(rng != ref)
            ctx.queries += 1
            if s.check() != z3.unsat:
                c.failing.append("batch_limit_is_not_min_of_capacity_plus_one_and_1024")
                c.cex = c.cex or ("batch limit = %s; differs for %s" % (z3.simplify(rng), s.model()))
    return c.res(paths, cfg, "paths ending by exhaustion of the batch: %d" % n_self)


def enum_name(v):
    for k in v.payloads:
        return k
    return v.name


def z3util_vars(e):
    seen, out = set(), []

    def walk(x):
        if x.get_id() in seen:
            return
        seen.add(x.get_id())
        if z3.is_const(x) and x.decl().kind() == z3.Z3_OP_UNINTERPRETED:
            out.append(x)
        for ch in x.children():
            walk(ch)
    walk(e)
    return out


def ping_close_writer(ctx):
    """which Drop impl of the eventfd ping module writes to the eventfd, and is it the Drop of the payload that all
    `Ping` clones share through an `Arc` (then `Arc` runs it exactly once, when the last clone goes, under any schedule)?
    Returns (regex of that drop fn, receiver type, shared_through_arc: bool)."""
    writers = []
    for name, fn in ctx.fns.items():
        m = re.search(r"^fn (?:\w+::)*eventfd::<impl at [^>]*>::drop\(_1: &mut (?:\w+::)*([A-Za-z_][A-Za-z0-9_]*)\)", fn.header)
        if not m:
            continue
        rx = r"eventfd::<impl at [^>]*>::drop\(_1: &mut (?:\w+::)*%s\)" % m.group(1)
        f, paths, cfg = run_fn(ctx, rx, inline=INL_PING, key="ping")
        if any(calls(p, r"rustix::io::write") for p in paths):
            writers.append((rx, m.group(1)))
    if len(writers) != 1:
        raise Unsupported("close writer of the ping source: %d Drop impls write to the eventfd" % len(writers))
    rx, ty = writers[0]
    src = open(os.path.join(ctx.src_dir, "sources", "ping", "eventfd.rs")).read()
    m = re.search(r"pub struct Ping\s*\{(.*?)\n\}", src, flags=re.S)
    body = re.sub(r"//[^\n]*", "", m.group(1)) if m else ""
    shared = bool(re.search(r":\s*Arc<\s*%s\s*>" % re.escape(ty), body)) and ty != "Ping"
    return rx, ty, shared


# ---------------------------------------------------------------- C03: ping (MIR twin of K ping-0)
def ob_ping(ctx, tier):
    """Ping::ping writes exactly the 8 bytes of 2u64 to the eventfd (EAGAIN swallowed); dropping the
    last handle writes exactly 1u64; PingSource::process_events: foreign token => nothing; else
    exactly one read; read error => propagated, no callback; callback iff counter & !1 != 0;
    Remove iff counter & 1 != 0, else Continue"""
    c = Chk()
    allp = []
    close_rx, close_ty, shared = ping_close_writer(ctx)
    if not shared:
        # e.g. written from `Drop for Ping` behind a reference-count test: check-then-act, two last handles dropped
        # concurrently can both skip it (or an unconditional write would close on every handle's drop)
        c.failing.append("close_increment_not_sent_by_the_drop_of_the_arc_shared_payload[%s]" % close_ty)
        c.cex = c.cex or "the eventfd close increment is written by Drop for %s, which is not the payload shared by all Ping clones through an Arc" % close_ty
    for rx, val, nm in ((r"::ping\(_1: &eventfd::Ping\)", 2, "ping"), (close_rx, 1, "close")):
        f, paths, cfg = run_fn(ctx, rx, inline=INL_PING, key="ping")
        allp += paths
        for p in paths:
            if nm == "close" and not shared and p.status == "return" and not calls(p, r"rustix::io::write"):
                continue      # the conditional skip of a per-handle drop (already reported above)
            if p.status == "panic" and not calls(p, r"rustix::io::write"):
                continue
            wr = calls(p, r"rustix::io::write")
            if len(wr) != 1:
                c.fail(nm + "_does_not_write_exactly_once", p)
                continue
            c.witness = True
            buf = wr[0].args[1]
            v = None
            try:
                bv = ctx_read(buf)
                v = bv.fields[0] if isinstance(bv, Agg) and getattr(bv, "bytes_of", False) else None
            except Exception:
                pass
            if v is None or not z3.is_bv_value(z3.simplify(v)) or z3.simplify(v).as_long() != val:
                c.fail(nm + "_writes_wrong_increment", p)
    f, paths, cfg = run_fn(ctx, PING_PE, inline=INL_PING, key="ping")
    allp += paths
    for p in paths:
        rd = calls(p, r"rustix::io::read")
        cbs = [e for e in p.trace if is_cb(e)]
        if p.status == "panic":
            continue
        if not rd:
            if cbs:
                c.fail("callback_without_reading_the_counter", p)
            continue
        if len(rd) != 1:
            c.fail("counter_read_more_than_once", p)
        if entails(ctx, p.pc, dz(rd[0].ret.disc) == 1)[0]:
            if cbs or not ret_is(p, 1):
                c.fail("read_error_not_propagated", p)
            continue
        if not ret_is(p, 0):
            continue
        ctr = [v for v in z3util_vars(z3.And(*p.pc)) if str(v).startswith("i_bytes_")]
        if len(ctr) != 1:
            c.fail("counter_value_not_identified", p)
            continue
        k = ctr[0]
        pa = ok_payload_disc(p.ret)
        fact_cb = (z3.LShR(k, 1) != 0) if cbs else (z3.LShR(k, 1) == 0)
        if not entails(ctx, p.pc, fact_cb)[0]:
            c.fail("callback_iff_ping_increment_present", p)
        if len(cbs) > 1:
            c.fail("more_than_one_callback_per_drain", p)
        fact_rm = z3.If((k & 1) != 0, dz(pa) == 3, dz(pa) == 0)
        if not entails(ctx, p.pc, fact_rm)[0]:
            c.fail("remove_iff_close_marker", p)
    return c.res(allp, cfg)


def ctx_read(ref):
    v = ref.obj.value
    for step in ref.path:
        if step[0] == "f":
            v = v.fields[step[1]]
    return v


# ---------------------------------------------------------------- C10: executor / stream
EXEC_CL = r"^fn futures::<impl at [^>]*>::process_events::\{closure#0\}"
EXEC_PE = r"::process_events\(_1: &mut Executor<T>"


def ob_exec_process(ctx, tier):
    """Executor::process_events closure: the `notified` flag is cleared BEFORE the first dequeue on
    every path and never afterwards; per runnable: run(), then the task table is borrowed, a
    finished entry is REMOVED and the guard dropped before the user callback gets the result;
    no guard of the table is alive across run() or the callback.  Outer function: if the 1024
    batch ends the loop the executor pings itself and returns Continue"""
    c = Chk()
    f, paths, cfg = run_fn(ctx, EXEC_CL, unroll=1)
    for p in paths:
        st = [a for a in atomics(p) if a.callee.endswith("store")]
        tr = calls(p, r"mpsc::Receiver::<.*>::try_recv$")
        if tr:
            c.witness = True
            if not st or st[0].idx > tr[0].idx or not bool_is(st[0].args[1], False):
                c.fail("notified_not_cleared_before_first_dequeue", p)
        if [a for a in st if tr and a.idx > tr[0].idx]:
            c.fail("notified_cleared_after_a_dequeue", p)
        if not tr and p.status == "return" and not st:
            c.fail("notified_not_cleared", p)
        for r in calls(p, r"Runnable::<usize>::run$"):
            if r.guards:
                c.fail("task_table_borrowed_across_run", p)
            if not [t for t in tr if ("r%d@Ok.0" % t.idx) in repr(r.args[0])]:
                c.fail("run_of_something_not_dequeued", p)
        for cb in [e for e in p.trace if is_cb(e)]:
            if cb.guards:
                c.fail("task_table_borrowed_during_callback", p)
            rm = calls(p, r"Slab::<.*>::remove$")
            prev = [x for x in rm if x.idx < cb.idx]
            if not prev:
                c.fail("result_delivered_without_removing_the_entry", p)
            elif not any(("r%d@Finished.0" % prev[-1].idx) in repr(a) or (getattr(a, "name", "").startswith("r%d@Finished" % prev[-1].idx)) for a in cb.args):
                c.fail("delivered_value_is_not_the_removed_result", p)
    f2, paths2, cfg2 = run_fn(ctx, EXEC_PE, unroll=1, inline=INL_PING, key="exec")
    for p in paths2:
        if p.status != "return" or not ret_is(p, 0):
            continue
        nexts = [e for e in p.trace if e.kind == "iter_next"]
        wr = calls(p, r"rustix::io::write")
        tr = calls(p, r"mpsc::Receiver::<.*>::try_recv$")
        if nexts and nexts[-1].callee == "None" and tr:
            if not wr:
                c.fail("batch_limit_reached_without_self_wakeup", p)
            if not entails(ctx, p.pc, dz(ok_payload_disc(p.ret)) == 0)[0]:
                c.fail("batch_limit_reached_but_not_continue", p)
        if tr and entails(ctx, p.pc, dz(tr[-1].ret.disc) == 1)[0] and wr:
            c.fail("self_wakeup_although_queue_was_seen_empty", p)
    return c.res(paths + paths2, cfg)


def ob_exec_send(ctx, tier):
    """futures::Sender::send (the schedule function of every task): enqueue under the mutex, THEN
    swap(notified, true), and ping the executor iff the flag was not already set"""
    c = Chk()
    f, paths, cfg = run_fn(ctx, r"^fn futures::<impl at [^>]*>::send\(_1: &futures::Sender")
    for p in paths:
        en = calls(p, r"mpsc::Sender::<Runnable<usize>>::send$")
        sw = atomics(p, "swap")
        pg = calls(p, r"Ping::ping$")
        if len(en) != 1:
            c.fail("schedule_shape", p)
            continue
        if p.status == "panic":
            if entails(ctx, p.pc, dz(en[0].ret.disc) == 0)[0]:
                c.fail("schedule_panics_after_successful_enqueue", p)
            continue
        c.witness = True
        if len(sw) != 1 or sw[0].idx < en[0].idx or not bool_is(sw[0].args[1], True):
            c.fail("notified_not_set_after_enqueue", p)
            continue
        was = entails(ctx, p.pc, sw[0].ret)[0]
        if was and pg:
            c.fail("redundant_wakeup", p)
        if not was and (len(pg) != 1 or pg[0].idx < sw[0].idx):
            c.fail("no_wakeup_although_flag_was_clear", p)
    return c.res(paths, cfg)


def ob_exec_drop(ctx, tier):
    """Executor::drop takes the task table (so schedule() sees None => ExecutorDestroyed), wakes every
    pending future's waker and drains the queue; Scheduler::schedule returns Err on a taken
    table without touching anything; StoreOnDrop stores the value or removes the entry"""
    c = Chk()
    f, paths, cfg = run_fn(ctx, r"::drop\(_1: &mut Executor<T>\)", unroll=1)
    for p in paths:
        if p.status == "panic":
            continue
        tk = [e for e in p.trace if e.kind == "take"]
        if not tk:
            c.fail("executor_drop_does_not_take_the_table", p)
        c.witness = True
        if p.status == "return" and not calls(p, r"mpsc::Receiver::<.*>::try_recv$"):
            c.fail("executor_drop_does_not_drain_the_queue", p)
        # every entry that still holds a future (Active::Future(waker)) gets its waker WOKEN -- not merely dropped: waking
        # schedules the task, whose runnable the drain below then drops together with the future; a waker that is
        # only dropped leaves the future alive for as long as a clone of it exists elsewhere
        fut_i = ctx.enums.get("Active", ["Future", "Finished"]).index("Future")
        nx = calls(p, r"slab::IntoIter<.*> as Iterator>::next$")
        for k_, e in enumerate(nx):
            if not entails(ctx, p.pc, dz(e.ret.disc) == 1)[0]:
                continue
            try:
                ent = e.ret.payloads["Some"][0]
                act = ent.fields[1] if isinstance(ent, Agg) else ent.fields.get(1)
            except Exception:
                continue
            if act is None or not entails(ctx, p.pc, dz(disc_of(act)) == fut_i)[0]:
                continue
            end = nx[k_ + 1].idx if k_ + 1 < len(nx) else len(p.trace)
            between = [x for x in p.trace[e.idx + 1:end] if x.kind == "call" and re.search(r"Waker::wake$|catch_unwind", x.callee)]
            if not between and (k_ + 1 < len(nx) or p.status == "return"):
                c.fail("pending_future_not_woken_when_the_executor_is_dropped", p)
            for x in between:
                if "catch_unwind" in x.callee:
                    cl = [a for a in x.args if isinstance(a, Agg) and "closure@" in (a.ty or "")]
                    fcl = cfg.closure_index.get(re.sub(r"^&(mut )?", "", cl[0].ty)) if cl and cfg.closure_index else None
                    if fcl is None:
                        raise Unsupported("closure passed to catch_unwind in Executor::drop not found")
                    f4, p4, cfg4 = run_fn(ctx, re.escape(fcl.name) + r"\(")
                    if not any(calls(q, r"Waker::wake$") for q in p4):
                        c.fail("closure_run_for_a_pending_future_does_not_wake_it", p)
    f2, p2, cfg2 = run_fn(ctx, r"::schedule\(_1: &Scheduler<T>", unroll=0)
    for p in p2:
        if p.status != "return" or not isinstance(p.ret, Enum):
            continue
        if p.ret.disc == 1:
            if calls(p, r"Runnable|spawn|insert|Slab"):
                c.fail("schedule_on_destroyed_executor_has_effects", p)
        else:
            sp = calls(p, r"spawn_local")
            ins = calls(p, r"Slab::<.*>::insert$")
            sc = calls(p, r"Runnable::<usize>::schedule$")
            if not sp or not ins or not sc or not (sp[0].idx < ins[0].idx < sc[0].idx):
                c.fail("schedule_order_spawn_insert_schedule", p)
            if sc and sc[0].guards:
                c.fail("task_table_borrowed_while_scheduling", p)
    # StoreOnDrop::drop: the wrapper future's guard. Table gone => nothing; value present => the entry AT ITS OWN INDEX
    # is overwritten (Finished) and nothing is removed; value absent (future dropped early) => exactly that entry is removed
    f3, p3, cfg3 = run_fn(ctx, r"::drop\(_1: &mut StoreOnDrop", unroll=0)
    for p in p3:
        if p.status != "return":
            continue
        tk = [e for e in p.trace if e.kind == "take"]
        rm = calls(p, r"Slab::<.*>::remove$")
        ix = calls(p, r"IndexMut<usize>>::index_mut$")
        if not tk:
            if rm or ix:
                c.fail("store_on_drop_touches_a_destroyed_table", p)
            continue
        has = entails(ctx, p.pc, dz(tk[0].ret.disc) == 1)[0]
        if has and (len(ix) != 1 or rm or "a1_0" not in repr(ix[0].args[1])):
            c.fail("finished_value_not_stored_at_its_own_index", p)
        if not has and (len(rm) != 1 or ix or "a1_0" not in repr(rm[0].args[1])):
            c.fail("dropped_future_entry_not_removed", p)
        for e in rm + ix:
            if not e.guards:
                c.fail("task_table_touched_without_borrow", p)
    return c.res(paths + p2 + p3, cfg)


STREAM_CL = r"::process_events::\{closure#0\}\(_1: &mut \{closure@src/sources/stream"
STREAM_PE = r"::process_events\(_1: &mut StreamSource<S>"


def ob_stream(ctx, tier):
    """StreamSource: poll_next is repeated until Pending (a dispatch that stops earlier must wake itself
    up again: the waker is only registered by a Pending answer); Some(x) => callback(Some(x)) with
    that x; None => exactly one callback(None), the loop ends, and the source returns Remove"""
    c = Chk()
    f, paths, cfg = run_fn(ctx, STREAM_CL, unroll=1)
    for p in paths:
        pn = calls(p, r" as Stream>::poll_next$")
        cbs = [e for e in p.trace if is_cb(e)]
        for q in pn:
            c.witness = True
            r = q.ret
            after = [e for e in p.trace[q.idx + 1:] if e.kind in ("call", "callback") and "as_mut" not in e.callee]
            if entails(ctx, p.pc, dz(r.disc) == 1)[0]:          # Pending
                if after:
                    c.fail("stream_polled_or_delivered_after_pending", p)
                continue
            item = r.payloads["Ready"][0]
            some = entails(ctx, p.pc, dz(disc_of(item)) == 1)[0]
            if not after or not is_cb(after[0]):
                c.fail("ready_item_not_delivered", p)
                continue
            arg = [a for a in after[0].args if isinstance(a, Enum)]
            if some:
                if not arg or arg[0].disc != 1 or arg[0].payloads["Some"][0] is not item.payloads["Some"][0]:
                    c.fail("delivered_item_is_not_the_polled_one", p)
            else:
                if not arg or arg[0].disc != 0:
                    c.fail("end_of_stream_not_delivered_as_none", p)
                if after[1:]:
                    c.fail("stream_used_after_its_end", p)
    f2, p2, cfg2 = run_fn(ctx, STREAM_PE, unroll=1, inline=INL_PING, key="stream")
    # a dispatch may only stop polling a stream that said Ready(Some) (instead of Pending / end) if it wakes itself up
    # again: the stream registers the waker only when it answers Pending
    outer_self_wake = any(calls(p, r"Ping::ping$|rustix::io::write") for p in p2)
    for p in paths:
        if p.status != "return":
            continue
        pn = calls(p, r" as Stream>::poll_next$")
        if not pn:
            continue
        last = pn[-1]
        pending = entails(ctx, p.pc, dz(last.ret.disc) == 1)[0]
        if pending:
            continue
        item = last.ret.payloads["Ready"][0]
        if entails(ctx, p.pc, dz(disc_of(item)) == 0)[0]:
            continue                         # end of stream
        if not calls(p, r"Ping::ping$|rustix::io::write", last.idx) and not outer_self_wake:
            c.fail("stream_left_before_pending_without_self_wakeup", p)
    for p in p2:
        if p.status != "return" or not ret_is(p, 0):
            continue
        ended = any(is_cb(e) and any(isinstance(a, Enum) and a.disc == 0 and enum_base_is(a, "Option") for a in e.args) for e in p.trace)
        if ended and not entails(ctx, p.pc, dz(ok_payload_disc(p.ret)) == 3)[0]:
            c.fail("ended_stream_not_removed", p)
    # round 9 (seed C10-7): the stream's waker pings on EVERY path, whatever the source is doing at that moment (a wake issued
    # while the stream is being polled -- by the stream itself or by a producer thread -- is the only thing that gets a
    # stream that answered Pending polled again)
    p3 = []
    for nm in ("wake", "wake_by_ref"):
        f3, ps3, _ = run_fn(ctx, r"^fn sources::stream::<impl at [^>]*>::%s\(_1: &?Arc<PingWaker>" % nm)
        p3 += ps3
        for p in ps3:
            if p.status == "return" and not calls(p, r"Ping::ping$"):
                c.fail("stream_waker_does_not_ping_on_every_path", p)
    return c.res(paths + p2 + p3, cfg)


def enum_base_is(v, base):
    return symex.enum_base(v.ty) == base


# ---------------------------------------------------------------- C15 / C16 / C17: Async adapter
ASYNC_NEW = r"^fn io::<impl at [^>]*>::new\(_1: Rc<LoopInner"


def ob_async_new(ctx, tier):
    """Async::new: the fd is made non-blocking first; on a registration error the slot is freed
    again (kill) and the previous blocking mode restored before the error is returned; on
    success the dispatcher is marked registered"""
    c = Chk()
    f, paths, cfg = run_fn(ctx, ASYNC_NEW)
    for p in paths:
        if p.status != "return":
            continue
        nb = calls(p, r"^set_nonblocking$")
        rg = calls(p, r"IoLoopInner>::register$")
        if not nb or not bool_is(nb[0].args[1], True):
            c.fail("adapter_does_not_make_fd_nonblocking_first", p)
            continue
        if not rg:
            if not ret_is(p, 1):
                c.fail("async_new_shape", p)
            continue
        c.witness = True
        failed = entails(ctx, p.pc, dz(rg[0].ret.disc) == 1)[0]
        kills = calls(p, r"IoLoopInner>::kill$", rg[0].idx)
        rest = [e for e in nb[1:] if e.idx > rg[0].idx]
        if failed:
            if not kills:
                c.fail("failed_adapt_leaks_its_slot", p)
            was = nb[0].ret.payloads.get("Ok", {}).get(0)
            if not rest or rest[0].args[1] is not was:
                c.fail("failed_adapt_does_not_restore_blocking_mode", p)
            if not ret_is(p, 1):
                c.fail("failed_adapt_not_reported", p)
            # the adapter never owned a poller registration: kill must not touch the poller
            newc = [e for e in p.trace if e.kind == "new" and "IoDispatcher" in e.callee and "RefCell" in e.callee]
            try:
                disp = newc[0].ret.pointee.value
                flag = disp.fields[struct_fields(ctx, "IoDispatcher").index("is_registered")]
                if not bool_is(flag, False):
                    c.fail("failed_adapt_marked_registered_and_would_unregister_a_foreign_fd", p)
            except Exception:
                c.fail("registration_flag_not_found", p)
        else:
            if kills or rest:
                c.fail("successful_adapt_undoes_itself", p)
            if not ret_is(p, 0):
                c.fail("successful_adapt_not_ok", p)
            # the dispatcher is marked registered: IoDispatcher.is_registered (field 3)
            newc = [e for e in p.trace if e.kind == "new" and "IoDispatcher" in e.callee and "RefCell" in e.callee]
            try:
                disp = newc[0].ret.pointee.value
                flag = disp.fields[struct_fields(ctx, "IoDispatcher").index("is_registered")]
                if not bool_is(flag, True):
                    c.fail("registration_not_recorded_in_dispatcher", p)
            except Exception:
                c.fail("registration_flag_not_found", p)
    return c.res(paths, cfg)


def ob_async_drop(ctx, tier):
    """Async Drop: kill, then the blocking mode the fd had before is restored.  kill: the slot is
    vacated; when the dispatcher is registered the fd is removed from the poller
    (Poll::unregister) unless the poll is busy, and the flag is cleared"""
    c = Chk()
    f, paths, cfg = run_fn(ctx, r"^fn io::<impl at [^>]*>::drop\(_1: &mut Async")
    for p in paths:
        k = calls(p, r"IoLoopInner>::kill$")
        nb = calls(p, r"^set_nonblocking$")
        if len(k) != 1 or len(nb) != 1 or nb[0].idx < k[0].idx:
            c.fail("adapter_drop_shape", p)
            continue
        c.witness = True
        if "a1.3" not in repr(nb[0].args[1]) and "was" not in repr(nb[0].args[1]):
            wi = struct_fields(ctx, "Async").index("was_nonblocking")
            if ("_%d_" % wi) not in str(nb[0].args[1]) and ("a1_%d" % wi) not in str(nb[0].args[1]):
                c.fail("adapter_drop_does_not_restore_previous_mode", p)
    f2, p2, cfg2 = run_fn(ctx, r"^fn io::<impl at [^>]*>::kill\(")
    reg_i = struct_fields(ctx, "IoDispatcher").index("is_registered")
    for p in p2:
        if p.status != "return":
            continue
        gm = calls(p, r"SourceList::<.*>::get_mut$")
        un = calls(p, r"sys::Poll::unregister")
        if len(gm) != 1:
            c.fail("kill_shape", p)
            continue
        live = entails(ctx, p.pc, dz(gm[0].ret.disc) == 0)[0]
        if live:
            try:
                src = gm[0].ret.payloads["Ok"][0].pointee.value.fields[1]
                if not (isinstance(src, Enum) and src.disc == 0):
                    c.fail("kill_does_not_vacate_the_slot", p)
            except Exception:
                c.fail("kill_slot_not_found", p)
        # registered & poll free  => unregister
        flags = [v for v in z3util_vars(z3.And(*p.pc)) if z3.is_bool(v) and ("_%d_" % reg_i) in str(v)]
        tb = [e for e in p.trace if e.kind == "borrow" and e.callee == "try_borrow_mut"]
        if flags:
            isreg = entails(ctx, p.pc, flags[0])[0]
            free = tb and tb[0].info.get("outcome") == "Ok"
            if isreg and free and len(un) != 1:
                c.fail("registered_fd_not_removed_from_poller", p)
            if not isreg and un:
                c.fail("unregistered_fd_removed_from_poller", p)
        elif un:
            c.fail("kill_unregisters_unconditionally", p)
    into = run_fn(ctx, r"^fn io::<impl at [^>]*>::into_inner\(_1: Async")
    for p in into[1]:
        # into_inner takes the fd; the adapter itself is dropped => Drop runs (drop event on the Async)
        if p.status == "return" and not [e for e in p.trace if e.kind in ("drop", "call") and "Async" in (e.callee + repr(e.args))]:
            c.fail("into_inner_forgets_the_adapter", p)
    return c.res(paths + p2 + into[1], cfg)


def ob_async_io(ctx, tier):
    """Readable/Writable::poll: Ready iff the consumed readiness has the bit (or error), otherwise
    the waker is registered for that interest and Pending returned.  AsyncRead/AsyncWrite: the
    inner read/write result is returned unchanged unless it is WouldBlock; on WouldBlock
    register_waker(READ|WRITE) precedes Pending"""
    c = Chk()
    allp = []
    cfg = None
    for nm, rx, fld in (("readable", r"::poll\(_1: Pin<&mut io::Readable", 0), ("writable", r"::poll\(_1: Pin<&mut (io::)?Writable", 1)):
        f, paths, cfg = run_fn(ctx, rx)
        allp += paths
        for p in paths:
            if p.status != "return" or not isinstance(p.ret, Enum):
                continue
            rd = calls(p, r"Async::<.*>::readiness$")
            rw = calls(p, r"Async::<.*>::register_waker$")
            if len(rd) != 1:
                c.fail(nm + "_does_not_consume_readiness_once", p)
                continue
            c.witness = True
            r = rd[0].ret
            bit = r.fields.get(fld) if isinstance(r, Sym) else None
            err = r.fields.get(2) if isinstance(r, Sym) else None
            have = [x for x in (bit, err) if x is not None]
            ready_cond = z3.Or(*have) if have else z3.BoolVal(False)
            if p.ret.disc == 0:
                if not entails(ctx, p.pc, ready_cond)[0] or rw:
                    c.fail(nm + "_ready_without_readiness", p)
            else:
                if not entails(ctx, p.pc, z3.Not(ready_cond))[0]:
                    c.fail(nm + "_pending_although_ready", p)
                if len(rw) != 1:
                    c.fail(nm + "_pending_without_registering_waker", p)
                else:
                    want = ("READ", "WRITE")[fld]
                    if want not in repr(rw[0].args[1]):
                        c.fail(nm + "_registers_wrong_interest", p)
    # register_waker (the one place every pending future goes through): the interest and the waker of THIS call are
    # stored, and the one-shot registration is re-armed with the poller on every call -- a stored waker says nothing
    # about the direction the fd is armed for -- with the poller's verdict returned
    f, paths, cfg = run_fn(ctx, r"::register_waker\(_1: &Async")
    allp += paths
    fl = struct_fields(ctx, "IoDispatcher")
    for p in paths:
        if p.status != "return":
            continue
        bs = [e for e in p.trace if e.kind == "borrow"]
        rr = calls(p, r"IoLoopInner>::reregister$")
        if len(rr) != 1:
            c.fail("register_waker_does_not_rearm_the_registration_exactly_once", p)
            continue
        try:
            disp = bs[0].ret.pointee.value
            w, i = disp.fields.get(fl.index("waker")), disp.fields.get(fl.index("interest"))
        except Exception:
            c.fail("register_waker_shape", p)
            continue
        if not (isinstance(w, Enum) and w.disc == 1 and "a3" in repr(w.payloads["Some"][0])):
            c.fail("register_waker_does_not_store_the_callers_waker", p)
        if "a2" not in repr(i):
            c.fail("register_waker_does_not_store_the_callers_interest", p)
        if [g for g in rr[0].guards]:
            c.fail("dispatcher_borrowed_while_reregistering", p)
        if p.ret is not rr[0].ret:
            c.fail("register_waker_hides_the_pollers_verdict", p)
    # the dispatcher of the adapter: EVERY event it is handed stores the readiness and wakes the stored waker (taking it),
    # whatever was stored before -- the registration is one-shot, so an event that is not passed on is lost for good
    f, paths, cfg = run_fn(ctx, r"^fn io::<impl at [^>]*>::process_events\(_1: &RefCell<(io::)?IoDispatcher>")
    allp += paths
    li = fl.index("last_readiness")
    for p in paths:
        if p.status != "return":
            continue
        tk = [e for e in p.trace if e.kind == "take" and "Waker" in e.callee]
        wk = calls(p, r"Waker::wake(_by_ref)?$")
        if len(tk) != 1:
            c.fail("io_event_does_not_take_the_stored_waker_exactly_once", p)
            continue
        had = entails(ctx, p.pc, dz(tk[0].ret.disc) == 1)[0]
        if had and (len(wk) != 1 or ("@Some.0" not in repr(wk[0].args[0]))):
            c.fail("io_event_does_not_wake_the_waiting_task", p)
        if not had and wk:
            c.fail("io_event_wakes_without_a_stored_waker", p)
        try:
            disp = [e for e in p.trace if e.kind == "borrow"][0].ret.pointee.value
            lr = disp.fields.get(li)
        except Exception:
            lr = None
        if lr is None or "a2" not in repr(lr):
            c.fail("io_event_readiness_not_stored_for_the_task", p)
        if not ret_is(p, 0) or not entails(ctx, p.pc, dz(ok_payload_disc(p.ret)) == 0)[0]:
            c.fail("io_dispatcher_does_not_continue", p)
    for nm, want in (("poll_read", "READ"), ("poll_read_vectored", "READ"), ("poll_write", "WRITE"),
                     ("poll_write_vectored", "WRITE"), ("poll_flush", "WRITE")):
        try:
            f, paths, cfg = run_fn(ctx, r"^fn io::<impl at [^>]*>::%s\(_1: Pin<&mut Async" % nm)
        except Unsupported:
            # round 9 (seed C17-6): the per-path decision below presupposes ONE I/O attempt per poll (what was written or
            # read before a Pending answer is reported to nobody, so a second attempt in the same poll breaks byte-exactness).
            # A body the engine cannot execute (slice iteration) is still decided on that presupposition from its MIR text:
            # more than one I/O call site, or an I/O call site inside a loop, is reported as a candidate -- and, like every M
            # candidate, becomes a VIOLATION only when a native scenario reproduces it (inconclusive otherwise)
            fn_ = ctx.fn(r"^fn io::<impl at [^>]*>::%s\(_1: Pin<&mut Async" % nm)
            body = "\n".join(fn_.src)
            sites = re.findall(r" as (?:std::io::)?(?:Read|Write)>::(?:read|write|read_vectored|write_vectored|flush)\(", body)
            back = False
            cur = -1
            for ln in fn_.src:
                mb = re.match(r"\s*bb(\d+)(?: \(cleanup\))?: \{", ln)
                if mb:
                    cur = int(mb.group(1))
                if "(cleanup)" not in ln:
                    for tgt in re.findall(r"(?:goto -> |return: |otherwise: |\d+: )bb(\d+)", ln):
                        if cur >= 0 and int(tgt) <= cur:
                            back = True
            if len(sites) != 1 or back:
                c.failing.append(nm + "_io_attempted_repeatedly_within_one_poll")
                c.cex = c.cex or "%s: %d I/O call site(s)%s in a body the engine cannot execute" % (nm, len(sites), ", loop" if back else "")
                continue
            raise
        allp += paths
        for p in paths:
            if p.status != "return" or not isinstance(p.ret, Enum):
                continue
            io = [e for e in p.trace if e.kind == "call" and re.search(r" as (std::io::)?(Read|Write)>::(read|write|read_vectored|write_vectored|flush)$", e.callee)]
            rw = calls(p, r"Async::<.*>::register_waker$")
            if len(io) != 1:
                c.fail(nm + "_io_not_attempted_exactly_once", p)
                continue
            c.witness = True
            if p.ret.disc == 1:      # Pending
                if len(rw) != 1 or rw[0].idx < io[0].idx or want not in repr(rw[0].args[1]):
                    c.fail(nm + "_pending_without_waker_for_" + want.lower(), p)
                kinds = calls(p, r"Error::kind$")
                if not kinds:
                    c.fail(nm + "_pending_without_would_block", p)
            else:
                pl = p.ret.payloads.get("Ready", {}).get(0)
                if rw and not (isinstance(pl, Enum) and pl.disc == 1):
                    c.fail(nm + "_ready_but_waker_registered", p)
                if not rw and pl is not io[0].ret:
                    c.fail(nm + "_result_not_passed_through", p)
    return c.res(allp, cfg)


# ---------------------------------------------------------------- C05: timers (std BinaryHeap = events)
HEAP = r"BinaryHeap::<(sources::timer::)?TimeoutData>::"


def ob_wheel(ctx, tier):
    """TimerWheel over std's BinaryHeap (trusted; its calls are events): next_expired pops iff the
    top entry's deadline is <= now (now >= deadline) and returns the popped entry's counter/token;
    cancel(c) pops the top iff its counter is c and otherwise ALWAYS filters the whole heap with
    `counter != c`; insert pushes (deadline, token, current counter) and advances the counter by
    one; insert_reuse pushes with the given counter; next_deadline peeks"""
    c = Chk()
    allp = []
    f, paths, cfg = run_fn(ctx, r"::next_expired\(_1: &mut TimerWheel")
    allp += paths
    for p in paths:
        pk = calls(p, HEAP + "peek$")
        pop = calls(p, HEAP + "pop$")
        ge = calls(p, r"<Instant as PartialOrd>::(ge|le|gt|lt)$")
        if len(pk) != 1:
            c.fail("next_expired_shape", p)
            continue
        c.witness = True
        nonempty = entails(ctx, p.pc, dz(pk[0].ret.disc) == 1)[0]
        if pop:
            if not nonempty or len(ge) != 1 or not entails(ctx, p.pc, ge[0].ret)[0]:
                c.fail("timer_popped_without_deadline_check", p)
            else:
                g = ge[0]
                nm = g.callee.split("::")[-1]
                a0, a1 = repr(g.args[0]), repr(g.args[1])
                # `now >= deadline` (or the mirrored `deadline <= now`)
                okcmp = (nm == "ge" and "now" in a0 and ("r%d@Some" % pk[0].idx) in a1) or \
                        (nm == "le" and ("r%d@Some" % pk[0].idx) in a0 and "now" in a1)
                if not okcmp:
                    c.fail("expiry_comparison_is_not_now_ge_deadline", p)
            if p.status == "return" and isinstance(p.ret, Enum) and p.ret.disc == 1:
                tup = p.ret.payloads["Some"][0]
                pd = pop[0].ret.payloads.get("Some", {}).get(0)
                flds = tup.fields if isinstance(tup, Agg) else []
                if not (pd is not None and len(flds) == 2 and any(x is y for x in flds for y in getattr(pd, "fields", {}).values())):
                    c.fail("next_expired_does_not_return_the_popped_entry", p)
        else:
            if p.status == "return" and not (isinstance(p.ret, Enum) and entails(ctx, p.pc, dz(p.ret.disc) == 0)[0]):
                c.fail("next_expired_some_without_pop", p)
            if nonempty and ge and entails(ctx, p.pc, ge[0].ret)[0]:
                c.fail("due_timer_not_popped", p)
    f, paths, cfg = run_fn(ctx, r"::cancel\(_1: &mut TimerWheel")
    allp += paths
    for p in paths:
        pk = calls(p, HEAP + "peek$")
        pop = calls(p, HEAP + "pop$")
        rt = calls(p, r"<TimeoutData>::retain::<|" + HEAP + r"retain")
        if p.status != "return":
            continue
        if pop:
            # only when the top entry's counter equals the argument
            top = pk[0].ret.payloads.get("Some", {}).get(0) if pk else None
            ctr = [v for v in z3util_vars(z3.And(*p.pc)) if str(v).startswith("i_") and "a2" in str(v)]
            vs = z3util_vars(z3.And(*p.pc))
            arg = [v for v in vs if z3.is_bv(v) and "_a2_" in str(v)]
            topc = [v for v in vs if z3.is_bv(v) and ("r%d_Some" % pk[0].idx) in str(v)] if pk else []
            if not arg or not topc or not entails(ctx, p.pc, arg[0] == topc[0])[0]:
                c.fail("cancel_pops_without_matching_counter", p)
            if rt:
                pass
        elif len(rt) != 1:
            c.fail("cancel_skips_the_heap_scan", p)
        else:
            # the retain closure keeps exactly the entries whose counter differs
            clos = rt[0].args[1]
            cf = ctx.fns.get(None)
    # arming identities are never reused: the wheel's counter is only ever advanced by insert; cancel / insert_reuse /
    # next_expired / next_deadline leave it alone (a timer whose entry was popped still owns its counter until it
    # re-inserts or cancels with it)
    ci = struct_fields(ctx, "TimerWheel").index("counter")
    for meth in ("cancel", "insert_reuse", "next_expired", "next_deadline"):
        try:
            fm, pm, cfgm = run_fn(ctx, r"::%s\(_1: &(mut )?TimerWheel" % meth)
        except Unsupported:
            continue
        allp += pm
        for p in pm:
            if p.status != "return":
                continue
            try:
                wheel = p.frames[0].locals["_1"].value.pointee.value
                v = wheel.fields.get(ci) if hasattr(wheel, "fields") else None
            except Exception:
                v = None
            if v is not None and not (z3.is_bv(v) and re.match(r"^i__+a1_%d_\d+$" % ci, str(v))):
                c.fail("wheel_counter_changed_by_%s" % meth, p)
    # the retain predicate
    cl = [fn for fn in ctx.fns.values() if re.search(r"::cancel::\{closure#\d+\}", fn.name) and "TimeoutData" in fn.header and "-> bool" in fn.header]
    okpred = False
    for fn in cl:
        fcl, cp, ccfg = run_fn(ctx, re.escape(fn.name) + r"\(")
        for p in cp:
            if p.status == "return" and z3.is_bool(p.ret):
                vs = z3util_vars(p.ret)
                s = z3.Solver()
                if len(vs) == 2:
                    s.add(p.ret != (vs[0] != vs[1]))
                    ctx.queries += 1
                    if s.check() == z3.unsat:
                        okpred = True
    if not okpred:
        c.failing.append("cancel_filter_is_not_counter_inequality")
    for nm, want_ctr_inc in (("insert", True), ("insert_reuse", False)):
        f, paths, cfg = run_fn(ctx, r"::%s\(_1: &mut TimerWheel" % nm)
        allp += paths
        for p in paths:
            if p.status == "panic":
                continue
            pu = calls(p, HEAP + "push$")
            if len(pu) != 1:
                c.fail(nm + "_does_not_push_exactly_once", p)
                continue
            td = pu[0].args[1]
            if not isinstance(td, Agg) or len(td.fields) != 3:
                c.fail(nm + "_pushes_something_else", p)
                continue
            names = getattr(td, "field_names", ["deadline", "token", "counter"])
            ctr = td.fields[names.index("counter")]
            dl = td.fields[names.index("deadline")]
            if nm == "insert":
                if "a2" not in repr(dl):
                    c.fail("insert_deadline_is_not_the_argument", p)
                # returns the counter used and advances by one
                if not (z3.is_bv(p.ret) and entails(ctx, p.pc, p.ret == ctr)[0]):
                    c.fail("insert_does_not_return_the_entry_counter", p)
                try:
                    wheel = p.frames[0].locals["_1"].value
                    newc = wheel.pointee.value.fields[1]
                    if not entails(ctx, p.pc, newc == ctr + 1)[0]:
                        c.fail("insert_does_not_advance_the_counter", p)
                except Exception:
                    c.fail("insert_counter_not_found", p)
            else:
                if "a2" not in str(ctr) or "a3" not in repr(dl):
                    c.fail("insert_reuse_does_not_use_given_counter_and_deadline", p)
    return c.res(allp, cfg)


def ob_timer(ctx, tier):
    """Timer as an EventSource: register inserts the CURRENT deadline once and stores (token, wheel,
    counter); a timer without deadline registers nothing; unregister takes the registration and
    cancels exactly its counter (and nothing if not registered); reregister = unregister then
    register; process_events: foreign token / no registration => Continue without callback;
    otherwise exactly one callback with the current deadline; Drop => Remove; ToInstant(x) =>
    insert_reuse(own counter, x, own token) and deadline := x, Continue; an unrepresentable
    ToDuration => deadline := None and Remove"""
    c = Chk()
    allp = []
    f, paths, cfg = run_fn(ctx, r"::register\(_1: &mut Timer,")
    allp += paths
    for p in paths:
        ins = calls(p, r"TimerWheel::insert$")
        if p.status != "return":
            continue
        timer = p.frames[0].locals["_1"].value.pointee.value
        dl = timer.fields.get(1)
        has = entails(ctx, p.pc, dz(disc_of(dl)) == 1)[0] if dl is not None else False
        if has:
            c.witness = True
            if len(ins) != 1 or "a1.1@Some.0" not in repr(ins[0].args[1]):
                c.fail("register_does_not_insert_current_deadline_once", p)
            reg = timer.fields.get(0)
            if not (isinstance(reg, Enum) and reg.disc == 1):
                c.fail("register_does_not_record_registration", p)
            else:
                r = reg.payloads["Some"][0]
                vals = r.fields if isinstance(r, Agg) else []
                if not any(v is ins[0].ret for v in vals) or not any(v is ins[0].args[2] for v in vals):
                    c.fail("registration_does_not_hold_the_inserted_counter_and_token", p)
        elif ins:
            c.fail("timer_without_deadline_registers", p)
    f, paths, cfg = run_fn(ctx, r"::unregister\(_1: &mut Timer,")
    allp += paths
    for p in paths:
        tk = [e for e in p.trace if e.kind == "take"]
        cn = calls(p, r"TimerWheel::cancel$")
        if len(tk) != 1:
            c.fail("unregister_does_not_take_registration", p)
            continue
        was = entails(ctx, p.pc, dz(tk[0].ret.disc) == 1)[0]
        if was:
            if len(cn) != 1:
                c.fail("unregister_does_not_cancel_once", p)
            else:
                regc = tk[0].ret.payloads["Some"][0]
                ctrs = [v for v in (regc.fields.values() if isinstance(regc, Sym) else regc.fields) if z3.is_bv(v)]
                if not any(cn[0].args[1] is v or (z3.is_bv(cn[0].args[1]) and z3.eq(cn[0].args[1], v)) for v in ctrs):
                    c.fail("unregister_cancels_another_counter", p)
        elif cn:
            c.fail("unregistered_timer_cancels", p)
    f, paths, cfg = run_fn(ctx, r"::reregister\(_1: &mut Timer,")
    allp += paths
    for p in paths:
        if p.status != "return":
            continue
        un = calls(p, r" as (sources::)?EventSource>::unregister$")
        rg = calls(p, r" as (sources::)?EventSource>::register$")
        if len(un) != 1:
            c.fail("reregister_does_not_unregister_first", p)
        elif entails(ctx, p.pc, dz(un[0].ret.disc) == 0)[0] and (len(rg) != 1 or rg[0].idx < un[0].idx):
            c.fail("reregister_does_not_register_after_unregister", p)
    f, paths, cfg = run_fn(ctx, r"::process_events\(_1: &mut Timer,")
    allp += paths
    for p in paths:
        if p.status != "return" or not ret_is(p, 0):
            continue
        cbs = [e for e in p.trace if is_cb(e)]
        ir = calls(p, r"TimerWheel::insert_reuse$")
        pa = ok_payload_disc(p.ret)
        ne = calls(p, r"<(sys::)?Token as PartialEq>::(ne|eq)$")
        if len(cbs) > 1:
            c.fail("timer_callback_more_than_once_per_event", p)
        if not cbs:
            if ir or not entails(ctx, p.pc, dz(pa) == 0)[0]:
                c.fail("ignored_event_has_effects", p)
            continue
        if not ne:
            c.fail("timer_fires_without_comparing_tokens", p)
        elif not entails(ctx, p.pc, z3.Not(ne[0].ret) if ne[0].callee.endswith("ne") else ne[0].ret)[0]:
            c.fail("timer_fires_for_foreign_token", p)
        if "a1.1@Some.0" not in repr(cbs[0].args[1]) and "@Some.0" not in repr(cbs[0].args[1]):
            c.fail("timer_event_is_not_the_current_deadline", p)
        act = cbs[0].ret
        ad = disc_of(act)
        if entails(ctx, p.pc, dz(ad) == 0)[0]:          # Drop
            if ir or not entails(ctx, p.pc, dz(pa) == 3)[0]:
                c.fail("drop_action_does_not_remove", p)
        elif ir:
            c.witness = True
            if len(ir) != 1 or not entails(ctx, p.pc, dz(pa) == 0)[0]:
                c.fail("reschedule_shape", p)
            else:
                timer = p.frames[0].locals["_1"].value.pointee.value
                dl = timer.fields.get(1)
                if not (isinstance(dl, Enum) and dl.disc == 1 and dl.payloads["Some"][0] is ir[0].args[2]):
                    c.fail("deadline_not_updated_to_rescheduled_instant", p)
                if "a1_0_Some" not in str(ir[0].args[1]):
                    c.fail("reschedule_does_not_reuse_own_counter", p)
                # the new deadline is what the callback asked for: ToInstant(x) => x; ToDuration(d) => some instant + d
                # (which base instant is used -- the code reads the clock after the callback -- is not part of C05)
                want = repr(ir[0].args[2])
                if entails(ctx, p.pc, dz(ad) == 1)[0]:
                    if ("r%d@ToInstant.0" % cbs[0].idx) not in want:
                        c.fail("rescheduled_to_another_instant_than_requested", p)
                else:
                    ca = [e for e in calls(p, r"Instant::checked_add$") if e.idx > cbs[0].idx]
                    if not ca or ("r%d@Some.0" % ca[-1].idx) not in want or ("r%d@ToDuration.0" % cbs[0].idx) not in repr(ca[-1].args[1]):
                        c.fail("rescheduled_duration_is_not_the_requested_one", p)
        elif calls(p, r"TimerWheel::insert$"):
            # round 9 (seed C12-6): re-armed under a FRESH arming identity that the timer does not remember: cancel (disable,
            # update, remove) can no longer find the entry, which then bounds every later wait and fires after removal
            c.fail("reschedule_does_not_reuse_own_counter", p)
        else:
            # overflowed ToDuration
            timer = p.frames[0].locals["_1"].value.pointee.value
            dl = timer.fields.get(1)
            if not (isinstance(dl, Enum) and dl.disc == 0) or not entails(ctx, p.pc, dz(pa) == 3)[0]:
                c.fail("overflowed_reschedule_not_removed", p)
    return c.res(allp, cfg)


def ob_err2_batch(ctx, tier):
    """when a source's processing (or applying its post-action) fails, the events of the batch that were
    not dispatched yet are not lost (expired timers were already popped from the wheel when the batch
    was collected, one-shot readiness was already consumed): after the failure the loop goes on to
    the next event of the batch instead of leaving the function"""
    f, paths, cfg = de_paths_exit(ctx)
    c = Chk()
    for p in paths:
        pes = proc_events(p)
        if not pes or not isinstance(pes[0].ret, Enum) or p.status == "panic":
            continue
        pe = pes[0]
        failed = entails(ctx, p.pc, dz(pe.ret.disc) == 1)[0]
        tag = "batch_remainder_dropped_on_error"
        if not failed:
            gets = [e for e in p.trace[pe.idx + 1:] if is_call(e, r"SourceList::<.*>::get$")]
            post = [e for e in p.trace[pe.idx + 1:] if is_call(e, r"EventDispatcher<Data>>::(reregister|unregister)$")
                    and (not gets or e.idx < gets[0].idx)]
            failed = any(isinstance(e.ret, Enum) and entails(ctx, p.pc, dz(e.ret.disc) == 1)[0] for e in post)
            tag = "batch_remainder_dropped_on_post_action_error"
        if not failed:
            continue
        c.witness = True
        # after the failure: is the iterator asked for the next event (or the rest stashed anywhere)?
        later = [e for e in p.trace[pe.idx + 1:] if is_call(e, r"Chain<.*> as Iterator>::(next|collect|for_each)|Vec::<PollEvent>::(extend|push|append)")]
        if not later:
            c.fail(tag, p)
    return c.res(paths, cfg)


# ---------------------------------------------------------------- C20 / C01 / C06: token arithmetic from MIR
def ob_token(ctx, tier):
    """token.rs from its MIR as 64-bit bit-vector terms (second, independent encoding next to the Kani
    harnesses): encode/decode are mutually inverse on all 2^64 keys and all triples, the key is
    usize::MAX only for the all-ones triple, increment_version is +1 mod 2^16 with sub-id reset,
    same_source_as compares exactly (id, generation), forget_sub_id zeroes the sub-id, and k
    version increments never return to the start for 1 <= k < 65536 (the 'fewer than 65536
    reuses' bound)"""
    c = Chk()
    T = r"^fn token::<impl at [^>]*>::"

    def one(rx, args=None):
        f, paths, cfg = run_fn(ctx, rx)
        ps = [p for p in paths if p.status == "return"]
        return ps, cfg

    def valid(s, *facts):
        s2 = z3.Solver()
        s2.add(z3.Not(z3.And(*facts)))
        ctx.queries += 1
        r = s2.check()
        return r == z3.unsat, (s2.model() if r == z3.sat else None)

    dec, cfg = one(T + r"from\(_1: usize\)")
    enc, _ = one(T + r"from\(_1: TokenInner\)")
    if len(dec) != 1 or len(enc) != 1:
        raise Unsupported("token encode/decode are not single-path")
    raw = [v for v in z3util_vars(z3.And(*[x == x for x in dec[0].ret.fields if z3.is_bv(x)])) if v.size() == 64]
    d = dec[0].ret          # Agg TokenInner [id32, ver16, sub16] as terms over raw
    e = enc[0].ret          # 64-bit term over (id, ver, sub) variables
    if not isinstance(d, Agg) or len(d.fields) != 3 or not z3.is_bv(e) or len(raw) != 1:
        raise Unsupported("unexpected shape of token conversions")
    ev = {v.size(): v for v in z3util_vars(e)}
    evs = z3util_vars(e)
    idv = [v for v in evs if v.size() == 32]
    v16 = [v for v in evs if v.size() == 16]
    if len(idv) != 1 or len(v16) != 2:
        raise Unsupported("encode does not depend on (u32, u16, u16)")
    c.witness = True
    # which u16 is the version: the one shifted by 16
    a, b = v16
    probe = z3.simplify(z3.substitute(e, (idv[0], z3.BitVecVal(0, 32)), (a, z3.BitVecVal(1, 16)), (b, z3.BitVecVal(0, 16))))
    ver, sub = (a, b) if probe.as_long() == (1 << 16) else (b, a)
    # encode(decode(raw)) == raw
    e_of_d = z3.substitute(e, (idv[0], d.fields[0]), (ver, d.fields[1]), (sub, d.fields[2]))
    ok, m = valid(None, e_of_d == raw[0])
    if not ok:
        c.failing.append("encode_decode_not_identity_on_keys")
        c.cex = c.cex or str(m)
    # decode(encode(t)) == t
    for i, fld in enumerate((idv[0], ver, sub)):
        d_of_e = z3.substitute(d.fields[i], (raw[0], e))
        ok, m = valid(None, d_of_e == fld)
        if not ok:
            c.failing.append("decode_encode_not_identity_on_triples")
            c.cex = c.cex or str(m)
    ok, m = valid(None, (e == z3.BitVecVal(2**64 - 1, 64)) == z3.And(idv[0] == 2**32 - 1, ver == 0xffff, sub == 0xffff))
    if not ok:
        c.failing.append("notify_key_reachable_for_another_triple")
        c.cex = c.cex or str(m)
    # increment_version
    iv, _ = one(T + r"increment_version\(")
    if len(iv) != 1 or not isinstance(iv[0].ret, Agg):
        raise Unsupported("increment_version shape")
    r = iv[0].ret
    vs = z3util_vars(r.fields[1])
    v0 = [v for v in vs if v.size() == 16]
    if len(v0) != 1:
        raise Unsupported("increment_version: version depends on %s" % vs)
    ok, m = valid(None, r.fields[1] == v0[0] + 1, r.fields[2] == 0)
    if not ok:
        c.failing.append("increment_version_is_not_plus_one_mod_2_16_with_sub_reset")
        c.cex = c.cex or str(m)
    idin = [v for v in z3util_vars(r.fields[0])]
    if len(idin) != 1 or not valid(None, r.fields[0] == idin[0])[0]:
        c.failing.append("increment_version_changes_the_id")
    # k-step lemma on the extracted step function f(v)
    k = z3.BitVec("k", 32)
    v = z3.BitVec("v", 16)
    step = lambda x: z3.substitute(r.fields[1], (v0[0], x))
    # f is +1 mod 2^16 (checked above) => f^k(v) = v + k mod 2^16; never v for 1 <= k < 65536
    ok, m = valid(None, z3.Implies(z3.And(z3.UGE(k, 1), z3.ULT(k, 65536)), (v + z3.Extract(15, 0, k)) != v))
    if not ok:
        c.failing.append("generation_returns_to_start_within_65535_reuses")
    # same_source_as / forget_sub_id
    ss, _ = one(T + r"same_source_as\(")
    cases = []
    for p in ss:
        cases.append(z3.And(*(p.pc + [p.ret if z3.is_bool(p.ret) else z3.BoolVal(False)])))
    allv = z3util_vars(z3.Or(*cases)) if cases else []
    ids = [x for x in allv if x.size() == 32]
    vers = [x for x in allv if x.size() == 16]
    if len(ids) == 2 and len(vers) == 2:
        ok, m = valid(None, z3.Or(*cases) == z3.And(ids[0] == ids[1], vers[0] == vers[1]))
        if not ok:
            c.failing.append("same_source_as_is_not_id_and_generation_equality")
            c.cex = c.cex or str(m)
    else:
        c.failing.append("same_source_as_shape")
    fs, _ = one(T + r"forget_sub_id\(")
    if len(fs) != 1 or not isinstance(fs[0].ret, Agg) or not valid(None, fs[0].ret.fields[2] == 0)[0]:
        c.failing.append("forget_sub_id_does_not_zero_the_sub_id")
    return result(not c.failing, c.witness, c.failing, c.cex, "", dec + enc + iv + ss + fs, cfg)


# ---------------------------------------------------------------- C02 / C05 / C12: Poll::poll
def ob_poll(ctx, tier):
    """Poll::poll: the poller is ALWAYS waited on (that is where fd readiness is collected), exactly
    once, with the clamped timeout; every successful path then drains the timer wheel with
    next_expired(now) until it returns None -- whether or not fd events were collected -- and every
    expired entry becomes an event carrying the entry's token; a poller error is returned"""
    c = Chk()
    f, paths, cfg = run_fn(ctx, r"^fn sys::<impl at [^>]*>::poll\(_1: &sys::Poll, ", unroll=1)
    for p in paths:
        if p.status == "panic":
            continue
        w = calls(p, r"Poller::wait$")
        nd = calls(p, r"TimerWheel::next_deadline$")
        ne = calls(p, r"TimerWheel::next_expired$")
        if len(w) != 1:
            c.fail("poller_not_waited_on_exactly_once", p)
            continue
        if not nd or nd[0].idx > w[0].idx:
            c.fail("timeout_not_clamped_to_the_next_deadline", p)
        # the time left until that deadline is measured against a clock reading taken HERE, between the lookup of the
        # deadline and the wait (not one handed in by the caller, which is stale by whatever ran in between)
        sd = [e for e in calls(p, r"Instant::(saturating_duration_since|duration_since|checked_duration_since)$") if e.idx < w[0].idx]
        for e in sd:
            nows = [x for x in calls(p, r"Instant::now$") if x.idx < e.idx]
            if not nows or not any(a is nows[-1].ret or ("r%d:" % nows[-1].idx) in repr(a) for a in e.args):
                c.fail("time_left_to_the_deadline_measured_against_a_stale_clock", p)
        c.witness = True
        werr = entails(ctx, p.pc, dz(w[0].ret.disc) == 1)[0]
        if werr:
            if not ret_is(p, 1) or ne:
                c.fail("poller_error_not_returned", p)
            continue
        conv = calls(p, r"as Iterator>::collect::<")
        if conv and entails(ctx, p.pc, dz(conv[0].ret.disc) == 1)[0]:
            continue          # error while re-arming an emulated level-triggered fd: returned
        if p.status == "return" or p.status.startswith("cut"):
            if not ne:
                c.fail("timer_wheel_not_drained_after_the_wait", p)
                continue
            if p.status == "return":
                last = ne[-1]
                if not entails(ctx, p.pc, dz(last.ret.disc) == 0)[0]:
                    c.fail("timer_wheel_drain_stops_before_it_is_empty_of_due_entries", p)
            pushes = calls(p, r"Vec::<PollEvent>::push$")
            somes = [e for e in ne if entails(ctx, p.pc, dz(e.ret.disc) == 1)[0]]
            if len(pushes) != len(somes) and p.status == "return":
                c.fail("expired_timer_not_turned_into_an_event", p)
            for e, pu in zip(somes, pushes):
                ev = pu.args[1]
                tup = e.ret.payloads["Some"][0]
                tok = tup.fields[1] if isinstance(tup, Agg) else (tup.fields.get(1) if isinstance(tup, Sym) else None)
                if not (isinstance(ev, Agg) and len(ev.fields) == 2 and ev.fields[1] is tok):
                    c.fail("timer_event_does_not_carry_the_entrys_token", p)
    return c.res(paths, cfg)


def ob_timer_stale(ctx, tier):
    """an expired-timer event that was collected for an EARLIER arming is not accepted by a timer that
    has been re-armed since (re-registration hands out the same token again, so the token match
    alone cannot tell the armings apart: the callback path must be guarded by something that
    identifies the arming -- the wheel counter, or the deadline against the clock)"""
    c = Chk()
    f, paths, cfg = run_fn(ctx, r"::process_events\(_1: &mut Timer,")
    for p in paths:
        cbs = [e for e in p.trace if is_cb(e)]
        if not cbs:
            continue
        c.witness = True
        before = p.trace[:cbs[0].idx]
        guards = [e for e in before if e.kind == "call" and re.search(r"PartialEq>::(ne|eq)$|PartialOrd>::(ge|le|gt|lt)$|Instant::now$|::elapsed$", e.callee)]
        arming = [e for e in guards if re.search(r"Instant|PartialOrd", e.callee) or re.search(r"<u32 as", e.callee)]
        # is the registration's counter compared with anything?  (it is only known to the wheel)
        ctr_cmp = [cnd for cnd in p.pc if any("a1_0_Some_0_2" in str(v) for v in z3util_vars(cnd))]
        if not arming and not ctr_cmp:
            c.fail("stale_event_of_previous_arming_accepted", p)
    return c.res(paths, cfg)


# ---------------------------------------------------------------- C16: delegation of registration
def ob_delegation(ctx, tier):
    """ping, channel, executor, stream and signals sources register / reregister / unregister by
    delegating exactly once to the Generic (or ping source) they wrap, with the caller's poll and
    token factory, and return its result -- so K's facts about Generic and the poller table carry
    over to them"""
    c = Chk()
    allp = []
    cfg = None
    targets = [("eventfd::PingSource", r"&mut eventfd::PingSource"), ("Channel", r"&mut Channel<T>"), ("Executor", r"&mut Executor<T>"),
               ("StreamSource", r"&mut StreamSource<S>"), ("Signals", r"&mut signals::Signals")]
    for nm, ty in targets:
        for meth, nargs in (("register", 3), ("reregister", 3), ("unregister", 2)):
            try:
                f, paths, cfg = run_fn(ctx, r"::%s\(_1: %s, " % (meth, ty))
            except Unsupported:
                if nm == "Signals":
                    continue
                raise
            allp += paths
            for p in paths:
                if p.status != "return":
                    continue
                inner = [e for e in p.trace if e.kind == "call" and re.search(r" as (sources::)?EventSource>::%s$" % meth, e.callee)]
                if len(inner) != 1:
                    c.fail("%s_%s_does_not_delegate_exactly_once" % (nm, meth), p)
                    continue
                c.witness = True
                e = inner[0]
                if "a2" not in repr(e.args[1]) or (nargs == 3 and "a3" not in repr(e.args[2])):
                    c.fail("%s_%s_delegates_with_other_arguments" % (nm, meth), p)
                if "a1" not in repr(e.args[0]):
                    c.fail("%s_%s_delegates_to_something_else" % (nm, meth), p)
                ok_inner = entails(ctx, p.pc, dz(e.ret.disc) == 0)[0]
                if isinstance(p.ret, Enum) and isinstance(p.ret.disc, int):
                    if ok_inner != (p.ret.disc == 0):
                        c.fail("%s_%s_does_not_return_the_inner_result" % (nm, meth), p)
    return c.res(allp, cfg)


# ---------------------------------------------------------------- C06 / C20: slots are never deallocated
def ob_slots_never_deallocated(ctx, tier):
    """the generation scheme rests on a slot outliving its sources: a slot of the SourceList, once
    created, is never popped, removed, truncated or otherwise deallocated while the loop lives (so its
    generation counter survives and a reused slot always gets the NEXT generation) -- scanned over every
    function body of the crate: no shrinking Vec operation on the slot vector; the only growing one
    is the push in vacant_entry; vacant_entry bumps the generation of the slot it reuses"""
    c = Chk()
    shrink = re.compile(r"Vec::<(list::)?SourceEntry<.*>::(pop|remove|swap_remove|truncate|clear|drain|retain|retain_mut|split_off|dedup\w*|set_len|resize\w*)(::<.*>)?$")
    grow = re.compile(r"Vec::<(list::)?SourceEntry<.*>::(push|insert|extend\w*|append)(::<.*>)?$")
    seen_push = []
    n = 0
    for name, fn in ctx.fns.items():
        symex.parse_body(fn)
        for b in fn.blocks.values():
            t = b.term
            if not t or t[0] != "call":
                continue
            n += 1
            callee = t[2]
            if shrink.search(callee):
                c.failing.append("slot_list_can_shrink:%s" % fn.short()[:60])
                c.cex = c.cex or ("%s calls %s" % (fn.name, callee))
            if grow.search(callee):
                seen_push.append(fn.short())
    c.witness = bool(seen_push)
    for sp in seen_push:
        if "vacant_entry" not in sp:
            c.failing.append("slot_created_outside_vacant_entry:%s" % sp[:60])
    # vacant_entry itself: the reused slot gets increment_version of its old token
    f, paths, cfg = run_fn(ctx, r"::vacant_entry\(_1: &mut SourceList", unroll=1)
    reuse = 0
    for p in paths:
        if p.status != "return":
            continue
        iv = calls(p, r"TokenInner::increment_version$")
        pu = [e for e in p.trace if e.kind == "call" and grow.search(e.callee)]
        if iv:
            reuse += 1
        if not iv and not pu:
            c.fail("vacant_entry_returns_a_slot_without_new_generation_or_new_slot", p)
        if iv and pu:
            c.fail("vacant_entry_shape", p)
    if not reuse:
        c.failing.append("vacant_entry_never_bumps_a_generation")
    return c.res(paths, cfg, "%d call sites scanned" % n)
