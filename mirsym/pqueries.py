"""Engine P queries: the protocol facts (which shared operations a function performs, in which
order, under which condition on the values read) are EXTRACTED from engine M's path summaries of
the current tree; the interleaving semantics, the shared-object models and the properties are in
protocol.py / here.  A change that reorders, drops or re-conditions one of the operations changes
the extracted thread programs and the query result."""
import itertools
import os
import re

import z3

from . import obligations as O
from . import protocol as P
from .mir_parse import Unsupported
from .symex import Enum, Agg, Sym, disc_of


# ------------------------------------------------------------------ extraction helpers
def write_value(ctx, e):
    """constant written by a rustix::io::write event (8 bytes of an integer)"""
    try:
        bv = O.ctx_read(e.args[1])
        v = bv.fields[0] if isinstance(bv, Agg) and getattr(bv, "bytes_of", False) else None
        v = z3.simplify(v)
        if z3.is_bv_value(v):
            return v.as_long()
    except Exception:
        pass
    raise Unsupported("eventfd write value is not a constant")


def ping_facts(ctx):
    """(ping increment, close increment, cb(k), remove(k), counter var) from the real code"""
    f, paths, cfg = O.run_fn(ctx, r"::ping\(_1: &eventfd::Ping\)", inline=O.INL_PING, key="ping")
    incs = set()
    for p in paths:
        for e in O.calls(p, r"rustix::io::write"):
            incs.add(write_value(ctx, e))
    if len(incs) != 1:
        raise Unsupported("Ping::ping does not write one constant: %s" % incs)
    close_rx, close_ty, shared = O.ping_close_writer(ctx)
    f, paths, cfg = O.run_fn(ctx, close_rx, inline=O.INL_PING, key="ping")
    cl = set()
    for p in paths:
        for e in O.calls(p, r"rustix::io::write"):
            cl.add(write_value(ctx, e))
    if len(cl) != 1:
        raise Unsupported("FlagOnDrop::drop does not write one constant: %s" % cl)
    f, paths, cfg = O.run_fn(ctx, O.PING_PE, inline=O.INL_PING, key="ping")
    k = z3.BitVec("k", 64)
    cb_cases, rm_cases, ok_cases = [], [], []
    for p in paths:
        rd = O.calls(p, r"rustix::io::read")
        if not rd or p.status != "return" or not O.ret_is(p, 0):
            continue
        ctr = [v for v in O.z3util_vars(z3.And(*p.pc)) if str(v).startswith("i_bytes_")]
        if len(ctr) != 1:
            continue
        # the part of the path condition that talks about the counter only
        conds = [c for c in p.pc if any(str(v).startswith("i_bytes_") for v in O.z3util_vars(c))]
        cond = z3.substitute(z3.And(*conds) if conds else z3.BoolVal(True), (ctr[0], k))
        has_cb = any(O.is_cb(e) for e in p.trace)
        pa = O.ok_payload_disc(p.ret)
        ok_cases.append(cond)
        if has_cb:
            cb_cases.append(cond)
        pav = z3.simplify(O.dz(pa))
        if z3.is_int_value(pav):
            if pav.as_long() == 3:
                rm_cases.append(cond)
        else:
            rm_cases.append(z3.And(cond, O.dz(pa) == 3))
    if not ok_cases:
        raise Unsupported("no decode path found in PingSource::process_events")
    return incs.pop(), cl.pop(), (z3.Or(*cb_cases) if cb_cases else z3.BoolVal(False)), \
        (z3.Or(*rm_cases) if rm_cases else z3.BoolVal(False)), k


def order_of(ctx, rx, kinds, inline=None, cond=None):
    """for every returning path of function rx: the sequence of shared-operation kinds, e.g.
    ['q_send', 'ping'];  kinds: list of (kind, callee regex)"""
    f, paths, cfg = O.run_fn(ctx, rx, inline=inline, key="order")
    out = []
    for p in paths:
        if p.status != "return":
            continue
        seq = []
        for e in p.trace:
            for kind, krx in kinds:
                if e.kind in ("call", "callback") and re.search(krx, e.callee):
                    seq.append((kind, e))
        out.append((p, seq))
    return out


# ------------------------------------------------------------------ C03: ping protocol
def p_ping(ctx, tier):
    """ping protocol, all interleavings: pingers (2 threads, <= 2 pings in total + the close marker
    written by the last handle) against the loop thread (<= 3 wait/drain rounds, level-triggered):
    whenever every remote step is done and the loop is blocked, every ping has been followed by a
    drain that started after it and ran the callback; the loop is never blocked with a non-zero
    counter; after the close marker was drained the source asks for Remove"""
    vp, vc, cbf, rmf, k = ping_facts(ctx)
    rounds = 3 if tier == "quick" else 4
    res = {"queries": 0, "solver_s": 0.0}
    failing, cex = [], ""
    witness = False
    for with_close in (False, True):
        pingers = [P.Thread("pingerA", [P.Op("efd_write", val=vp), P.Op("efd_write", val=vp)]),
                   P.Thread("pingerB", [P.Op("efd_write", val=vp)] + ([P.Op("efd_write", val=vc)] if with_close else []))]
        loop_ops = []
        for r in range(rounds):
            loop_ops += [P.Op("wait_efd"), P.Op("efd_read")]
        loop = P.Thread("loop", loop_ops, may_stop=True)
        ex = P.Execution([pingers[0], pingers[1], loop])
        # the loop stops for good once a drain decoded Remove: later rounds are not executed
        for r in range(rounds):
            if r > 0:
                prev_k = ex.ret(2, 2 * (r - 1) + 1, "val")
                removed_before = z3.Or(*[z3.substitute(rmf, (k, ex.ret(2, 2 * q + 1, "val"))) for q in range(r)])
                ex.s.add(z3.Implies(removed_before, z3.Not(ex.executed(2, 2 * r))))
            # a drain is only attempted after a wait reported the fd readable
            ex.s.add(z3.Implies(ex.executed(2, 2 * r + 1), ex.ret(2, 2 * r, "efd_ready")))
            ex.s.add(z3.Implies(ex.executed(2, 2 * r), ex.executed(2, 2 * r + 1)) if False else z3.BoolVal(True))
        wend = ex.world_at_end()
        done = z3.And(ex.thread_done(0), ex.thread_done(1))
        removed = z3.Or(*[z3.And(ex.executed(2, 2 * r + 1), z3.substitute(rmf, (k, ex.ret(2, 2 * r + 1, "val")))) for r in range(rounds)])
        rounds_left = z3.Not(ex.executed(2, 2 * rounds - 1))
        quiescent = z3.And(done, ex.maximal(wend), rounds_left, z3.Not(removed))
        # 0. sanity witness: a complete run exists
        ok, m, dt = ex.check(done)
        res["queries"] += 1
        res["solver_s"] += dt
        witness = witness or ok
        # 1. lost wake: some ping (write of vp at position t) has no later drain with callback
        pings = [(0, 0), (0, 1), (1, 0)]
        for (ti, oi) in pings:
            served = z3.Or(*[z3.And(ex.executed(2, 2 * r + 1), ex.position(2, 2 * r + 1) > ex.position(ti, oi),
                                    z3.substitute(cbf, (k, ex.ret(2, 2 * r + 1, "val")))) for r in range(rounds)])
            sat, m, dt = ex.check(quiescent, z3.Not(served))
            res["queries"] += 1
            res["solver_s"] += dt
            if sat:
                failing.append("ping_without_later_callback")
                cex = cex or "\n".join(ex.schedule(m))
        # 2. the loop is never stuck while the counter is non-zero (level-triggered => would spin, not block)
        sat, m, dt = ex.check(quiescent, wend.efd != 0)
        res["queries"] += 1
        res["solver_s"] += dt
        if sat:
            failing.append("loop_blocked_with_pending_counter")
            cex = cex or "\n".join(ex.schedule(m))
        # 3. no callback without a ping: a drain that runs the callback saw a counter that contains a ping increment
        for r in range(rounds):
            kr = ex.ret(2, 2 * r + 1, "val")
            sat, m, dt = ex.check(ex.executed(2, 2 * r + 1), z3.substitute(cbf, (k, kr)), z3.ULT(kr, z3.BitVecVal(vp, 64)))
            res["queries"] += 1
            res["solver_s"] += dt
            if sat:
                failing.append("callback_without_ping")
                cex = cex or "\n".join(ex.schedule(m))
        # 4. close: once the close marker has been written and everything drained, Remove was requested
        if with_close:
            sat, m, dt = ex.check(done, ex.maximal(wend), rounds_left, z3.Not(removed), wend.efd == 0)
            res["queries"] += 1
            res["solver_s"] += dt
            if sat:
                failing.append("close_marker_drained_without_remove")
                cex = cex or "\n".join(ex.schedule(m))
    return {"ok": not failing, "witness": witness, "failing": sorted(set(failing)), "cex": cex,
            "detail": "ping=+%d close=+%d rounds=%d, 2 pinger threads" % (vp, vc, rounds),
            "queries": res["queries"], "solver_s": res["solver_s"], "paths": 0, "opaque": []}


# ------------------------------------------------------------------ C04: channel protocol
KINDS_SEND = [("enq", r"std::sync::mpsc::Sender::<T>::send$"), ("ping", r"Ping::ping$")]
KINDS_TRY = [("try", r"std::sync::mpsc::SyncSender::<T>::try_send$"), ("ping", r"Ping::ping$")]
KINDS_SYNC = [("trysend", r"^SyncSender::<T>::try_send$"), ("blk", r"std::sync::mpsc::SyncSender::<T>::send$"), ("ping", r"Ping::ping$")]


def chan_facts(ctx):
    facts = {}
    # Sender::send: order on the successful path
    seqs = order_of(ctx, r"::send\(_1: &channel::Sender<T>", KINDS_SEND)
    okseq = None
    for p, seq in seqs:
        en = [e for k_, e in seq if k_ == "enq"]
        if en and O.entails(ctx, p.pc, O.dz(en[0].ret.disc) == 0)[0]:
            okseq = [k_ for k_, _ in seq]
    if okseq is None:
        raise Unsupported("Sender::send: no successful path")
    facts["send_ok_order"] = okseq
    # SyncSender::try_send: ping on ok / full
    tf = {"ok": None, "full": None}
    for p, seq in order_of(ctx, r"::try_send\(_1: &channel::SyncSender<T>", KINDS_TRY):
        tr = [e for k_, e in seq if k_ == "try"]
        if not tr:
            continue
        r = tr[0].ret
        has_ping = any(k_ == "ping" for k_, _ in seq)
        if O.entails(ctx, p.pc, O.dz(r.disc) == 0)[0]:
            tf["ok"] = has_ping
        elif O.entails(ctx, p.pc, O.dz(r.disc) == 1)[0]:
            errv = r.payloads.get("Err", {}).get(0)
            ed = disc_of(errv) if errv is not None else None
            if ed is not None and O.entails(ctx, p.pc, O.dz(ed) == 0)[0]:
                tf["full"] = has_ping                    # the Full arm
            elif ed is None or not O.entails(ctx, p.pc, O.dz(ed) != 0)[0]:
                # the code does not look at WHICH error it was: this path is also the Full case
                tf["full"] = has_ping if tf["full"] is None else tf["full"]
    if None in tf.values():
        raise Unsupported("SyncSender::try_send: paths not identified")
    facts["try_send_ping"] = tf
    # SyncSender::send on Full: blocking send then ping?
    blk = None
    for p, seq in order_of(ctx, r"::send\(_1: &channel::SyncSender<T>", KINDS_SYNC):
        ks = [k_ for k_, _ in seq]
        if "blk" in ks:
            b = [e for k_, e in seq if k_ == "blk"][0]
            # the path on which the blocking send succeeded -- or on which its result is not inspected at all
            if not O.entails(ctx, p.pc, O.dz(b.ret.disc) != 0)[0]:
                blk = ks
    if blk is None:
        raise Unsupported("SyncSender::send: no blocking path")
    facts["sync_send_full_order"] = blk
    # drop order of the sender structs
    import os
    t = re.sub(r"//[^\n]*", "", open(os.path.join(ctx.src_dir, "sources", "channel.rs")).read())
    for st_ in ("Sender", "SyncSender"):
        m = re.search(r"\bstruct\s+%s\s*<T>\s*\{([^}]*)\}" % st_, t)
        names = re.findall(r"(\w+)\s*:", m.group(1))
        facts["drop_order_" + st_] = [n for n in names if n in ("sender", "ping")]
    # the receive side
    f, paths, cfg = O.run_fn(ctx, O.CHAN_PE, unroll=1, inline=O.INL_PING, key="chan")
    rng = None
    selfping_on_exhaustion, selfping_otherwise = None, False
    exh_paths = []
    remove_on_closed = None
    for p in paths:
        if p.status != "return" or not O.ret_is(p, 0):
            continue
        nexts = [e for e in p.trace if e.kind == "iter_next"]
        wr = O.calls(p, r"rustix::io::write")
        tr = O.calls(p, r"mpsc::Receiver::<T>::try_recv$")
        if rng is None:
            for e in nexts:
                try:
                    rv = e.args[0].obj.value
                    rng = rv.fields[1]
                except Exception:
                    pass
        closed = any(O.is_cb(e) and any(isinstance(a, Enum) and O.enum_name(a) == "Closed" for a in e.args) for e in p.trace)
        if nexts and nexts[-1].callee == "None":
            selfping_on_exhaustion = bool(wr) if selfping_on_exhaustion is None else (selfping_on_exhaustion and bool(wr))
            exh_paths.append((list(p.pc), bool(wr)))
        elif tr and wr:
            selfping_otherwise = True
        if closed:
            rm = O.entails(ctx, p.pc, O.dz(O.ok_payload_disc(p.ret)) == 3)[0]
            remove_on_closed = rm if remove_on_closed is None else (remove_on_closed and rm)
    if rng is None or not z3.is_bv(rng):
        raise Unsupported("channel batch limit not found")
    facts.update(max_expr=rng, selfping_on_exhaustion=bool(selfping_on_exhaustion), selfping_otherwise=selfping_otherwise,
                 remove_on_closed=bool(remove_on_closed), exh_paths=exh_paths)
    return facts


def selfping_for(facts, capacity):
    """does the loop wake itself up when a drain round of a channel of this capacity ends by exhausting its batch? Decided
    per capacity from the path conditions of the exhaustion paths (the code may make it depend on the capacity)."""
    vs = O.z3util_vars(facts["max_expr"])
    answers = set()
    for pc, wrote in facts["exh_paths"]:
        sv = z3.Solver()
        sv.add(*pc)
        for v in vs:
            sv.add(v == z3.BitVecVal(capacity, 64))
        if sv.check() == z3.sat:
            answers.add(wrote)
    if len(answers) != 1:
        raise Unsupported("self-wake-up on batch exhaustion is not determined by the capacity (%s)" % sorted(answers))
    return answers.pop()


def batch_limit(facts, capacity):
    vs = O.z3util_vars(facts["max_expr"])
    e = z3.simplify(z3.substitute(facts["max_expr"], *[(v, z3.BitVecVal(capacity, 64)) for v in vs]))
    if not z3.is_bv_value(e):
        raise Unsupported("batch limit not constant for capacity %d" % capacity)
    return e.as_long()


def chan_loop(facts, vp, rounds, maxb, nmsgs, selfping=None):
    """the loop thread: per round wait, drain the eventfd, then up to `maxb` try_recv (each only if
    all earlier ones of the round returned a message), then the self-ping if the batch was exhausted"""
    ops = []
    layout = []
    for r in range(rounds):
        base = len(ops)
        ops.append(P.Op("wait_efd"))
        ops.append(P.Op("efd_read"))
        recvs = []
        for j in range(maxb):
            prev = list(recvs)
            ops.append(P.Op("q_try_recv", cond=(lambda get, prev=prev: z3.And(*[get(o, "ok") for o in prev]) if prev else z3.BoolVal(True))))
            recvs.append(len(ops) - 1)
        sp = None
        if (facts["selfping_on_exhaustion"] if selfping is None else selfping):
            allok = list(recvs)
            ops.append(P.Op("efd_write", val=vp, cond=(lambda get, allok=allok: z3.And(*[get(o, "ok") for o in allok]) if allok else z3.BoolVal(True))))
            sp = len(ops) - 1
        layout.append({"wait": base, "read": base + 1, "recvs": recvs, "selfping": sp})
    return P.Thread("loop", ops, may_stop=True), layout


def p_chan(ctx, tier):
    """channel protocol, all interleavings, for an unbounded channel and sync channels of capacity
    0 and 1: senders (send order, wake-up order, drop order of queue handle and wake guard as
    extracted from the code) against the loop (batch limit and self-wake-up as extracted):
    (1) no state with everything remote finished, the loop idle and a message still queued;
    (2) after the last sender is gone the loop does not go idle before Closed was delivered, and
    then asks for Remove; (3) every drain round that starts with a queued message delivers at
    least one; (4) a blocked synchronous send is never stuck while the loop is idle"""
    vp, vc, cbf, rmf, k = ping_facts(ctx)
    facts = chan_facts(ctx)
    rounds = 3
    out = {"queries": 0, "solver_s": 0.0}
    failing, cex, witness = [], "", False

    def q(ex, *cs):
        sat, m, dt = ex.check(*cs)
        out["queries"] += 1
        out["solver_s"] += dt
        return sat, m

    # (name, capacity, queue bound of the model, scaled batch limit or None). In the two *_smallbatch configurations the
    # code's limit (1024 for these capacities) is scaled down to 2 so that more messages can be queued than one round
    # takes: that is where the loop's own wake-up on an exhausted batch matters.
    configs = [("unbounded", 2 ** 64 - 1, P.QCAP, None), ("sync0", 0, 0, None), ("sync1", 1, 1, None),
               ("unbounded_smallbatch", 2 ** 64 - 1, P.QCAP, 2), ("sync2048_smallbatch", 2048, P.QCAP, 2)]
    for cname, cap, bound, scaled in configs:
        real_limit = batch_limit(facts, cap)
        if scaled is not None and real_limit < 1024:
            raise Unsupported("batch limit for capacity %d is %d: the scaled configuration does not apply" % (cap, real_limit))
        maxb = min(real_limit, 3) if scaled is None else scaled
        nmsgs = (2 if tier == "quick" else 3) if scaled is None else 3
        sp_here = selfping_for(facts, cap)
        # ---- sender thread program
        sops = []
        for mi in range(nmsgs):
            if cname.startswith("unbounded"):
                for kind in facts["send_ok_order"]:
                    sops.append(P.Op("q_send", val=mi + 1) if kind == "enq" else P.Op("efd_write", val=vp))
            else:
                t_i = len(sops)
                sops.append(P.Op("q_try_send", val=mi + 1))
                tf = facts["try_send_ping"]
                sops.append(P.Op("efd_write", val=vp, cond=(lambda get, t_i=t_i, tf=tf: z3.Or(z3.And(get(t_i, "ok"), z3.BoolVal(tf["ok"])),
                                                                                            z3.And(get(t_i, "full"), z3.BoolVal(tf["full"]))))))
                for kind in facts["sync_send_full_order"]:
                    if kind == "trysend":
                        continue
                    cnd = (lambda get, t_i=t_i: get(t_i, "full"))
                    if kind == "blk":
                        if bound == 0:
                            sops.append(P.Op("q_offer", val=mi + 1, cond=cnd))
                            sops.append(P.Op("q_wait_taken", cond=cnd))
                        else:
                            sops.append(P.Op("q_send_blocking", val=mi + 1, cond=cnd))
                    else:
                        sops.append(P.Op("efd_write", val=vp, cond=cnd))
        n_send_ops = len(sops)
        for fld in facts["drop_order_" + ("Sender" if cname.startswith("unbounded") else "SyncSender")]:
            sops.append(P.Op("q_drop_sender") if fld == "sender" else P.Op("efd_write", val=vp))
        sender = P.Thread("sender", sops)
        loop, layout = chan_loop(facts, vp, rounds, maxb, nmsgs, selfping=sp_here)
        ex = P.Execution([sender, loop], senders=1, bound=bound)
        L = 1
        for r, lay in enumerate(layout):
            ex.s.add(z3.Implies(ex.executed(L, lay["read"]), ex.ret(L, lay["wait"], "efd_ready")))
        wend = ex.world_at_end()
        sdone = ex.thread_done(0)
        last = layout[-1]
        rounds_left = z3.Not(ex.executed(L, last["wait"]))
        # deliveries and Closed
        delivered = []
        closed = []
        for lay in layout:
            for o in lay["recvs"]:
                act = z3.And(ex.executed(L, o), ex.ret(L, o, "active"))
                delivered.append(z3.And(act, ex.ret(L, o, "ok")))
                closed.append(z3.And(act, ex.ret(L, o, "disc")))
        ncl = z3.Sum([z3.If(c_, 1, 0) for c_ in closed]) if closed else z3.IntVal(0)
        removed_before = lambda r: z3.Or(*[c_ for c_ in closed[: sum(len(l["recvs"]) for l in layout[:r])]]) if r > 0 and closed else z3.BoolVal(False)
        for r, lay in enumerate(layout):
            if r > 0:
                ex.s.add(z3.Implies(removed_before(r), z3.Not(ex.executed(L, lay["wait"]))))
        quiescent = z3.And(ex.maximal(wend), rounds_left)
        ok, m = q(ex, sdone, wend.qlen == 0)
        witness = witness or ok
        # (1) stranded message
        sat, m = q(ex, sdone, quiescent, z3.Not(z3.Or(*closed)) if closed else z3.BoolVal(True), wend.qlen > 0)
        if sat:
            failing.append("message_left_queued_without_wakeup[%s]" % cname)
            cex = cex or ("[%s]\n" % cname) + "\n".join(ex.schedule(m))
        # (1b) the same while the sender handle is still alive (its drop would wake the loop, but may never come):
        # all sends returned, the handle not dropped yet, the loop blocked in the poller, a message queued
        sat, m = q(ex, ex.executed(0, n_send_ops - 1), z3.Not(ex.executed(0, n_send_ops)), rounds_left,
                   ex.next_op_disabled(L, wend), wend.qlen > 0)
        if sat:
            failing.append("message_left_queued_while_sender_alive[%s]" % cname)
            cex = cex or ("[%s]\n" % cname) + "\n".join(ex.schedule(m))
        # (2) Closed exactly once after the last sender is gone
        sat, m = q(ex, sdone, quiescent, ncl != 1)
        if sat:
            failing.append("closed_not_delivered_exactly_once[%s]" % cname)
            cex = cex or ("[%s]\n" % cname) + "\n".join(ex.schedule(m))
        if not facts["remove_on_closed"]:
            failing.append("closed_channel_not_removed")
        # (3) progress per round
        for r, lay in enumerate(layout):
            got = z3.Or(*[z3.And(ex.executed(L, o), ex.ret(L, o, "active"), z3.Or(ex.ret(L, o, "ok"), ex.ret(L, o, "disc"))) for o in lay["recvs"]]) if lay["recvs"] else z3.BoolVal(False)
            end_of_round = lay["selfping"] if lay["selfping"] is not None else (lay["recvs"][-1] if lay["recvs"] else lay["read"])
            sat, m = q(ex, ex.executed(L, end_of_round), ex.ret(L, lay["read"], "qlen") > 0, z3.Not(got))
            if sat:
                failing.append("round_with_queued_message_delivers_nothing[%s]" % cname)
                cex = cex or ("[%s]\n" % cname) + "\n".join(ex.schedule(m))
                break
        # (4b) a sender parked in a blocking send without having issued ANY wake-up for that message (distinct from the
        # recorded D11 schedule, in which the wake-up was issued but consumed before the sender parked)
        if not cname.startswith("unbounded"):
            never = []
            for oi, op in enumerate(sops[:n_send_ops]):
                if op.kind == "efd_write":
                    never.append(z3.Or(z3.Not(ex.executed(0, oi)), z3.Not(ex.ret(0, oi, "active"))))
            if never:
                sat, m = q(ex, z3.Not(sdone), quiescent, z3.And(*never), z3.Not(z3.Or(*closed)) if closed else z3.BoolVal(True))
                if sat:
                    failing.append("blocking_send_parked_without_any_wakeup[%s]" % cname)
                    cex = cex or ("[%s]\n" % cname) + "\n".join(ex.schedule(m))
        # (4) blocked sender while the loop is idle
        if not cname.startswith("unbounded"):
            sat, m = q(ex, z3.Not(sdone), quiescent, z3.Not(z3.Or(*closed)) if closed else z3.BoolVal(True))
            if sat:
                failing.append("synchronous_send_stuck_while_loop_idle[%s]" % cname)
                cex = cex or ("[%s]\n" % cname) + "\n".join(ex.schedule(m))
    return {"ok": not failing, "witness": witness, "failing": sorted(set(failing)), "cex": cex,
            "detail": "send order %s, try_send ping %s, sync full order %s, drop order %s/%s, batch limits %s, self-ping %s"
                      % (facts["send_ok_order"], facts["try_send_ping"], facts["sync_send_full_order"], facts["drop_order_Sender"],
                         facts["drop_order_SyncSender"], [batch_limit(facts, c_[1]) for c_ in configs], [selfping_for(facts, c_[1]) for c_ in configs]),
            "queries": out["queries"], "solver_s": out["solver_s"], "paths": 0, "opaque": []}


# ------------------------------------------------------------------ C10: executor protocol
def exec_facts(ctx):
    facts = {}
    f, paths, cfg = O.run_fn(ctx, r"^fn futures::<impl at [^>]*>::send\(_1: &futures::Sender")
    order = None
    ping_if = {True: None, False: None}
    for p in paths:
        if p.status != "return":
            continue
        seq = []
        for e in p.trace:
            if O.is_call(e, r"mpsc::Sender::<Runnable<usize>>::send$"):
                seq.append("enq")
            elif e in O.atomics(p, "swap"):
                seq.append("swap")
            elif e in O.atomics(p, "store"):
                seq.append("store:%s" % z3.is_true(z3.simplify(e.args[1])))
            elif e in O.atomics(p, "load"):
                seq.append("load")
            elif O.is_call(e, r"Ping::ping$"):
                seq.append("ping")
        sw = O.atomics(p, "swap") + O.atomics(p, "load")
        if not sw:
            raise Unsupported("schedule function does not read the notified flag")
        old_true = O.entails(ctx, p.pc, sw[0].ret)[0]
        old_false = O.entails(ctx, p.pc, z3.Not(sw[0].ret))[0]
        key = True if old_true else (False if old_false else None)
        if key is None:
            raise Unsupported("schedule function path does not depend on the flag")
        ping_if[key] = "ping" in seq
        base = [s_ for s_ in seq if s_ != "ping"]
        pos = seq.index("ping") if "ping" in seq else None
        if order is None or "ping" in seq:
            order = seq if "ping" in seq else (order or seq)
    facts["send_order"] = order
    facts["ping_if_old"] = ping_if
    # the loop side: Executor::process_events with the ping source inlined
    f, paths, cfg = O.run_fn(ctx, O.EXEC_PE, unroll=1, inline=O.INL_PING, key="exec")
    shapes = {}
    selfping = None
    for p in paths:
        if p.status != "return" or not O.ret_is(p, 0):
            continue
        rd = O.calls(p, r"rustix::io::read")
        if not rd:
            continue
        seq = []
        for e in p.trace[rd[0].idx + 1:]:
            if O.is_call(e, r"mpsc::Receiver::<.*>::try_recv$"):
                okr = O.entails(ctx, p.pc, O.dz(e.ret.disc) == 0)[0]
                seq.append("recv_ok" if okr else "recv_empty")
            elif e.kind == "call" and re.match(r"^Atomic(Bool)?::<bool>::store$|^AtomicBool::store$", e.callee):
                seq.append("store:%s" % z3.is_true(z3.simplify(e.args[1])))
            elif e.kind == "call" and re.match(r"^Atomic(Bool)?::<bool>::swap$", e.callee):
                seq.append("swap:%s" % z3.is_true(z3.simplify(e.args[1])))
            elif O.is_call(e, r"rustix::io::write"):
                seq.append("selfping")
            elif e.kind == "iter_next" and e.callee == "None":
                seq.append("exhausted")
        if "recv_empty" in seq and seq.count("recv_ok") == 0:
            shapes[0] = seq
        if "recv_empty" in seq and seq.count("recv_ok") == 1:
            shapes[1] = seq
        if "exhausted" in seq:
            selfping = ("selfping" in seq) if selfping is None else (selfping and "selfping" in seq)
    if 0 not in shapes or 1 not in shapes:
        raise Unsupported("executor drain shapes not found: %s" % shapes)
    s0 = shapes[0]
    pre = s0[:s0.index("recv_empty")]
    post = [x for x in s0[s0.index("recv_empty") + 1:] if x != "selfping"]
    facts["pre"], facts["post"], facts["selfping_on_exhaustion"] = pre, post, bool(selfping)
    facts["shape1"] = shapes[1]
    return facts


def p_exec(ctx, tier):
    """executor protocol, all interleavings: 2 (thorough: 3) waker threads (each one run of the schedule function:
    enqueue / swap(notified) / conditional ping, in the order extracted from the code) against the
    loop (drain the eventfd, flag writes and dequeues in the extracted order, <= 2 dequeues per
    round, self-ping on an exhausted batch, 3 rounds): no reachable state in which every waker has
    finished, the loop is idle and a runnable is still queued"""
    vp, vc, cbf, rmf, k = ping_facts(ctx)
    facts = exec_facts(ctx)
    out = {"queries": 0, "solver_s": 0.0}
    failing, cex, witness = [], "", False
    rounds, maxb, nwakers = (3, 2, 2) if tier == "quick" else tuple(int(x) for x in os.environ.get("VERIF_PEXEC", "5,3,4").split(","))

    def waker(name, val):
        ops = []
        rd_i = None
        for kd in facts["send_order"]:
            if kd == "enq":
                ops.append(P.Op("q_send", val=val))
            elif kd == "swap":
                ops.append(P.Op("flag_swap", obj=0, val=True))
                rd_i = len(ops) - 1
            elif kd == "load":
                ops.append(P.Op("flag_load", obj=0))
                rd_i = len(ops) - 1
            elif kd.startswith("store:"):
                ops.append(P.Op("flag_store", obj=0, val=(kd == "store:True")))
            elif kd == "ping":
                pi = facts["ping_if_old"]
                r_ = rd_i
                ops.append(P.Op("efd_write", val=vp, cond=(lambda get, r_=r_, pi=pi: z3.Or(z3.And(get(r_, "val"), z3.BoolVal(bool(pi[True]))),
                                                                                         z3.And(z3.Not(get(r_, "val")), z3.BoolVal(bool(pi[False])))))))
        return P.Thread(name, ops)

    def flagop(kd, cond=None):
        if kd.startswith("store:"):
            return P.Op("flag_store", obj=0, val=(kd == "store:True"), cond=cond)
        if kd.startswith("swap:"):
            return P.Op("flag_swap", obj=0, val=(kd == "swap:True"), cond=cond)
        return None

    lops, layout = [], []
    for r in range(rounds):
        base = len(lops)
        lops += [P.Op("wait_efd"), P.Op("efd_read")]
        for kd in facts["pre"]:
            o = flagop(kd)
            if o:
                lops.append(o)
        recvs = []
        for j in range(maxb):
            prev = list(recvs)
            lops.append(P.Op("q_try_recv", cond=(lambda get, prev=prev: z3.And(*[get(o, "ok") for o in prev]) if prev else z3.BoolVal(True))))
            recvs.append(len(lops) - 1)
        sawempty = (lambda get, recvs=recvs: z3.Or(*[z3.And(get(o, "active"), z3.Not(get(o, "ok"))) for o in recvs]))
        for kd in facts["post"]:
            o = flagop(kd, cond=sawempty)
            if o:
                lops.append(o)
        if facts["selfping_on_exhaustion"]:
            lops.append(P.Op("efd_write", val=vp, cond=(lambda get, recvs=recvs: z3.And(*[get(o, "ok") for o in recvs]))))
        layout.append({"wait": base, "read": base + 1, "recvs": recvs, "end": len(lops) - 1})
    loop = P.Thread("loop", lops, may_stop=True)
    wakers = [waker("waker%s" % "ABCD"[i], i + 1) for i in range(nwakers)]
    ex = P.Execution(wakers + [loop], nflags=1, flag_init=[False], senders=nwakers)
    L = nwakers
    for lay in layout:
        ex.s.add(z3.Implies(ex.executed(L, lay["read"]), ex.ret(L, lay["wait"], "efd_ready")))
        # a round, once its drain happened, runs to its end (process_events is not interrupted)
    wend = ex.world_at_end()
    done = z3.And(*[ex.thread_done(i) for i in range(nwakers)])
    rounds_left = z3.Not(ex.executed(L, layout[-1]["wait"]))
    for q_ in (lambda: ex.check(done, wend.qlen == 0),):
        sat, m, dt = q_()
        out["queries"] += 1
        out["solver_s"] += dt
        witness = witness or sat
    sat, m, dt = ex.check(done, ex.maximal(wend), rounds_left, wend.qlen > 0)
    out["queries"] += 1
    out["solver_s"] += dt
    if sat:
        failing.append("runnable_queued_while_loop_idle_and_no_wakeup_pending")
        cex = "\n".join(ex.schedule(m))
    return {"ok": not failing, "witness": witness, "failing": failing, "cex": cex,
            "detail": "schedule fn order %s ping_if_old %s; loop pre %s post %s self-ping %s" % (
                facts["send_order"], facts["ping_if_old"], facts["pre"], facts["post"], facts["selfping_on_exhaustion"]),
            "queries": out["queries"], "solver_s": out["solver_s"], "paths": 0, "opaque": []}


# ------------------------------------------------------------------ C11: LoopSignal / run / block_on
def sig_facts(ctx):
    fs = O.struct_fields(ctx, "Signals")
    stop_i, fr_i = fs.index("stop"), fs.index("future_ready")
    facts = {"stop_i": stop_i, "fr_i": fr_i}

    def aops(p, start=0):
        seq = []
        for e in p.trace[start:]:
            m = re.match(r"^Atomic(?:Bool)?::<bool>::(\w+)$", e.callee) if e.kind == "call" else None
            if m:
                fld = "stop" if repr(e.args[0]).endswith(".%d" % stop_i) else ("fr" if repr(e.args[0]).endswith(".%d" % fr_i) else "?")
                v = None
                if m.group(1) in ("store", "swap"):
                    v = z3.is_true(z3.simplify(e.args[1]))
                seq.append((m.group(1), fld, v, e))
            elif O.is_call(e, r"Notifier::notify$|Poller::notify$"):
                seq.append(("notify", None, None, e))
            elif O.is_call(e, r" as Future>::poll$"):
                seq.append(("poll", None, None, e))
            elif O.is_call(e, r"::dispatch_events$|EventLoop::<.*>::dispatch::<"):
                seq.append(("wait", None, None, e))
            elif e.kind == "callback" or (e.kind == "call" and e.callee.startswith("closure:")):
                seq.append(("cb", None, None, e))
        return seq
    # waker
    for nm in ("wake", "wake_by_ref"):
        f, paths, cfg = O.run_fn(ctx, r"::block_on::<impl at [^>]*>::%s\(" % nm)
        seqs = [[(k_, fld, v) for k_, fld, v, _ in aops(p)] for p in paths if p.status == "return"]
        if not seqs or any(s_ != seqs[0] for s_ in seqs):
            raise Unsupported("waker paths differ")
        facts[nm] = seqs[0]
    f, paths, cfg = O.run_fn(ctx, r"^fn loop_logic::<impl at [^>]*>::stop\(_1: &LoopSignal")
    facts["stop"] = [(k_, fld, v) for k_, fld, v, _ in aops(paths[0])]
    f, paths, cfg = O.run_fn(ctx, r"^fn loop_logic::<impl at [^>]*>::wakeup\(_1: &LoopSignal")
    facts["wakeup"] = [(k_, fld, v) for k_, fld, v, _ in aops(paths[0])]
    # block_on: initialisation and one iteration in its two variants (woken / not woken); an iteration
    # ends with the per-iteration closure; the initialisation is the leading run of plain stores
    f, paths, cfg = O.run_fn(ctx, r"::block_on\(_1: &mut EventLoop", unroll=1)
    woken = notwoken = init = None
    for p in paths:
        seq = aops(p)
        if not p.status.startswith("cut"):
            continue
        ninit = 0
        while ninit < len(seq) and seq[ninit][0] == "store":
            ninit += 1
        its, cur = [], []
        for x in seq[ninit:]:
            cur.append(x)
            if x[0] == "cb":
                its.append(cur)
                cur = []
        if len(its) < 2:
            continue
        init = [(k_, fld, v) for k_, fld, v, _ in seq[:ninit]]
        for it in its:
            kinds = [(k_, fld, v) for k_, fld, v, _ in it if k_ != "cb"]
            if any(k_ == "poll" for k_, _, _ in kinds):
                woken = woken or kinds
            else:
                notwoken = notwoken or kinds
    if init is None or woken is None or notwoken is None:
        raise Unsupported("block_on iteration shapes not found")
    facts.update(bo_init=init, bo_woken=woken, bo_notwoken=notwoken)
    # run(): init + iteration
    f, paths, cfg = O.run_fn(ctx, r"::run\(_1: &mut EventLoop", unroll=1)
    for p in paths:
        if p.status.startswith("cut"):
            seq = aops(p)
            reads = [i for i, x in enumerate(seq) if x[0] in ("load", "swap") and x[1] == "stop"]
            if not reads:
                raise Unsupported("run() does not read the stop flag")
            first_load = reads[0]
            waits = [i for i, x in enumerate(seq) if x[0] == "wait"]
            facts["run_init"] = [(k_, fld, v) for k_, fld, v, _ in seq[:first_load]]
            facts["run_iter"] = [(k_, fld, v) for k_, fld, v, _ in seq[first_load:waits[0] + 1] if k_ != "cb"]
    if "run_iter" not in facts:
        raise Unsupported("run iteration shape not found")
    return facts


def _sigops(kinds, stop_f=0, fr_f=1, cond=None, conds=None):
    ops = []
    for i, (k_, fld, v) in enumerate(kinds):
        fi = stop_f if fld == "stop" else fr_f
        cnd = conds[i] if conds else cond
        if k_ == "store":
            ops.append(P.Op("flag_store", obj=fi, val=v, cond=cnd))
        elif k_ == "swap":
            ops.append(P.Op("flag_swap", obj=fi, val=v, cond=cnd))
        elif k_ == "load":
            ops.append(P.Op("flag_load", obj=fi, cond=cnd))
        elif k_ == "notify":
            ops.append(P.Op("notify", cond=cnd))
        elif k_ == "poll":
            ops.append(P.Op("poll", cond=cnd))
        elif k_ == "wait":
            ops.append(P.Op("wait_any", cond=cnd))
    return ops


def p_sig(ctx, tier):
    """LoopSignal / run / block_on, all interleavings (3 loop iterations).  block_on: two wakes from
    another thread (store future_ready, notify, in the extracted order) against the loop's
    iteration (stop check, consumption of future_ready, poll, blocking wait, as extracted): the
    loop is never left blocked after a wake without having polled the future since that wake.
    run: stop() then wakeup() issued after run's initial reset: the loop is never left blocked"""
    facts = sig_facts(ctx)
    out = {"queries": 0, "solver_s": 0.0}
    failing, cex, witness = [], "", False
    iters = 3 if tier == "quick" else 4
    # ---------------- block_on
    woken, notw = facts["bo_woken"], facts["bo_notwoken"]
    rd = [i for i, (k_, fld, v) in enumerate(woken) if fld == "fr" and k_ in ("swap", "load")]
    if not rd:
        raise Unsupported("block_on does not read future_ready")
    rdi = rd[0]
    # operations of the woken iteration that the not-woken iteration does not have are conditional on
    # the flag having been read as set (in-order multiset alignment)
    cond_flags = []
    j = 0
    for op_ in woken:
        if j < len(notw) and notw[j] == op_:
            cond_flags.append(False)
            j += 1
        else:
            cond_flags.append(True)
    if j != len(notw):
        raise Unsupported("block_on: the not-woken iteration is not a subsequence of the woken one")

    def bo_loop():
        lops = _sigops(facts["bo_init"])
        marks = []
        for it in range(iters):
            base = len(lops)
            rpos = base + rdi
            conds = [(lambda get, rpos=rpos: get(rpos, "val")) if cflag else None for cflag in cond_flags]
            lops += _sigops(woken, conds=conds)
            marks.append({"first": base, "read": rpos, "polls": [base + i for i, (k_, _, _) in enumerate(woken) if k_ == "poll"],
                          "wait": base + [i for i, (k_, _, _) in enumerate(woken) if k_ == "wait"][-1],
                          "stoploads": [base + i for i, (k_, fld, _) in enumerate(woken) if k_ == "load" and fld == "stop"],
                          "last": base + len(woken) - 1})
        return P.Thread("loop", lops, may_stop=True), lops, marks

    def exits(ex, L, lops, marks):
        # block_on returns at the first load of stop that reads true: nothing after it is executed
        for mk in marks:
            for sl in mk["stoploads"]:
                for later in range(sl + 1, len(lops)):
                    ex.s.add(z3.Implies(z3.And(ex.executed(L, sl), ex.ret(L, sl, "active"), ex.ret(L, sl, "val")), z3.Not(ex.executed(L, later))))

    loop, lops, marks = bo_loop()
    wk_ops = _sigops(facts["wake"]) + _sigops(facts["wake_by_ref"])
    ex = P.Execution([P.Thread("waker", wk_ops), loop], nflags=2, flag_init=[False, False])
    L = 1
    exits(ex, L, lops, marks)
    wend = ex.world_at_end()
    sat, m, dt = ex.check(ex.thread_done(0))
    out["queries"] += 1
    out["solver_s"] += dt
    witness = witness or sat
    stores = [i for i, o in enumerate(wk_ops) if o.kind == "flag_store" and o.obj == 1 and o.val]
    rounds_left = z3.Not(ex.executed(L, marks[-1]["wait"]))
    for si in stores:
        polled_after = z3.Or(*[z3.And(ex.executed(L, pi), ex.ret(L, pi, "active"), ex.position(L, pi) > ex.position(0, si))
                               for mk in marks for pi in mk["polls"]]) if any(mk["polls"] for mk in marks) else z3.BoolVal(False)
        sat, m, dt = ex.check(ex.thread_done(0), ex.maximal(wend), rounds_left, z3.Not(polled_after))
        out["queries"] += 1
        out["solver_s"] += dt
        if sat:
            failing.append("block_on_blocked_after_wake_without_polling")
            cex = cex or "\n".join(ex.schedule(m))
    # stop() requested first => None: no poll in an iteration that began after the stop request
    loop2, lops2, marks2 = bo_loop()
    rem_ops = _sigops(facts["stop"]) + _sigops(facts["wake"])
    ex3 = P.Execution([P.Thread("remote", rem_ops), loop2], nflags=2, flag_init=[False, False])
    exits(ex3, 1, lops2, marks2)
    stop_i0 = [i for i, o in enumerate(rem_ops) if o.kind == "flag_store" and o.obj == 0 and o.val]
    if not stop_i0:
        raise Unsupported("LoopSignal::stop does not store the stop flag")
    ninit = len(_sigops(facts["bo_init"]))
    after_init = ex3.position(0, stop_i0[0]) > ex3.position(1, ninit - 1) if ninit else z3.BoolVal(True)
    for mk in marks2:
        for pi in mk["polls"]:
            sat, m, dt = ex3.check(after_init, ex3.executed(1, pi), ex3.ret(1, pi, "active"),
                                   ex3.position(1, mk["first"]) > ex3.position(0, stop_i0[0]))
            out["queries"] += 1
            out["solver_s"] += dt
            if sat:
                failing.append("block_on_polls_the_future_in_an_iteration_begun_after_stop")
                cex = cex or "\n".join(ex3.schedule(m))
                break
    # ---------------- run + stop/wakeup
    rops = _sigops(facts["run_init"])
    ninit = len(rops)
    rmarks = []
    for it in range(iters):
        base = len(rops)
        seq = facts["run_iter"]
        ld = [i for i, (k_, fld, v) in enumerate(seq) if k_ in ("load", "swap") and fld == "stop"]
        if not ld:
            raise Unsupported("run iteration does not read stop")
        ops_it = _sigops(seq)
        rops += ops_it
        rmarks.append({"load": base + ld[0], "wait": base + [i for i, (k_, _, _) in enumerate(seq) if k_ == "wait"][0]})
    rloop = P.Thread("run", rops, may_stop=True)
    remote = P.Thread("remote", _sigops(facts["stop"]) + _sigops(facts["wakeup"]))
    ex2 = P.Execution([remote, rloop], nflags=2, flag_init=[False, False])
    wend2 = ex2.world_at_end()
    # run() returns at the first load of stop that reads true: nothing after it is executed
    for i, mk in enumerate(rmarks):
        for later in range(mk["load"] + 1, len(rops)):
            ex2.s.add(z3.Implies(z3.And(ex2.executed(1, mk["load"]), ex2.ret(1, mk["load"], "val")), z3.Not(ex2.executed(1, later))))
    exited = z3.Or(*[z3.And(ex2.executed(1, mk["load"]), ex2.ret(1, mk["load"], "val")) for mk in rmarks])
    after_init = ex2.position(0, 0) > ex2.position(1, ninit - 1) if ninit else z3.BoolVal(True)
    sat, m, dt = ex2.check(ex2.thread_done(0), exited)
    out["queries"] += 1
    out["solver_s"] += dt
    witness = witness and sat
    rl2 = z3.Not(ex2.executed(1, rmarks[-1]["wait"]))
    sat, m, dt = ex2.check(ex2.thread_done(0), after_init, ex2.executed(1, ninit - 1) if ninit else z3.BoolVal(True),
                           ex2.maximal(wend2), rl2, z3.Not(exited))
    out["queries"] += 1
    out["solver_s"] += dt
    if sat:
        failing.append("run_blocked_after_stop_and_wakeup")
        cex = cex or "\n".join(ex2.schedule(m))
    # run never returns Ok without a stop request: an exit needs a load that read true, which needs the store
    sat, m, dt = ex2.check(exited, z3.Not(ex2.executed(0, 0)))
    out["queries"] += 1
    out["solver_s"] += dt
    if sat:
        failing.append("run_exits_without_stop_request")
        cex = cex or "\n".join(ex2.schedule(m))
    # round 9 (seed C11-5): the same question with a STALE request, i.e. the stop flag already set when run() begins
    # (a stop() nobody was running for, a second stop() in the last iteration of the previous run, a stop left by block_on):
    # run() must not return Ok on it
    ex4 = P.Execution([remote, rloop], nflags=2, flag_init=[True, False])
    for i, mk in enumerate(rmarks):
        for later in range(mk["load"] + 1, len(rops)):
            ex4.s.add(z3.Implies(z3.And(ex4.executed(1, mk["load"]), ex4.ret(1, mk["load"], "val")), z3.Not(ex4.executed(1, later))))
    exited4 = z3.Or(*[z3.And(ex4.executed(1, mk["load"]), ex4.ret(1, mk["load"], "val")) for mk in rmarks])
    sat, m, dt = ex4.check(exited4, z3.Not(ex4.executed(0, 0)))
    out["queries"] += 1
    out["solver_s"] += dt
    if sat:
        failing.append("run_exits_on_a_stale_stop_request")
        cex = cex or "\n".join(ex4.schedule(m))
    return {"ok": not failing, "witness": witness, "failing": sorted(set(failing)), "cex": cex,
            "detail": "wake %s; block_on init %s woken %s not-woken %s; stop %s wakeup %s; run init %s iter %s" % (
                facts["wake"], facts["bo_init"], facts["bo_woken"], facts["bo_notwoken"], facts["stop"], facts["wakeup"],
                facts["run_init"], facts["run_iter"]),
            "queries": out["queries"], "solver_s": out["solver_s"], "paths": 0, "opaque": []}
