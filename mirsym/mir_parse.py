"""Parser for rustc's textual MIR (`-Zunpretty=mir`) -- the sub-language listed in
DESIGN.md Appendix A.  Anything outside it raises Unsupported; callers turn that
into an *inconclusive* verdict (exit 2), never into a violation."""
import re


class Unsupported(Exception):
    pass


class Fn:
    def __init__(self, name, header, params, ret, line):
        self.name = name          # e.g. loop_logic::<impl at src/loop_logic.rs:404:1: 404:35>::dispatch_events
        self.header = header      # the full `fn ...(...) -> T` line
        self.params = params      # [(local, type)]
        self.ret = ret
        self.locals = {}          # local -> type
        self.blocks = {}          # 'bb0' -> Block
        self.cleanup = set()
        self.line = line
        self.debug = {}           # local -> source name (first binding)
        self.src = []             # body text lines

    def short(self):
        return re.sub(r"<impl at [^>]*>", "<impl>", self.name)


class Block:
    def __init__(self, name):
        self.name = name
        self.stmts = []
        self.term = None


# ---------------------------------------------------------------- helpers

def split_top(s, sep=","):
    """split on `sep` at nesting depth 0 of () [] {} <> (ignoring `->` and `=>`)"""
    out, depth, cur, i = [], 0, "", 0
    while i < len(s):
        c = s[i]
        if c in "([{":
            depth += 1
        elif c in ")]}":
            depth -= 1
        elif c == "<":
            depth += 1
        elif c == ">" and i > 0 and s[i - 1] not in "-=":
            depth -= 1
        if c == sep and depth == 0:
            out.append(cur)
            cur = ""
        elif c == '"':
            j = i + 1
            while j < len(s) and s[j] != '"':
                if s[j] == "\\":
                    j += 1
                j += 1
            cur += s[i:j + 1]
            i = j
        else:
            cur += c
        i += 1
    if cur.strip():
        out.append(cur)
    return [x.strip() for x in out]


def match_paren_back(s, end):
    """s[end] == ')' : index of the matching '(' (parens only, strings skipped)"""
    depth = 0
    i = end
    while i >= 0:
        c = s[i]
        if c == '"':
            i -= 1
            while i >= 0 and not (s[i] == '"' and (i == 0 or s[i - 1] != "\\")):
                i -= 1
        elif c == ")":
            depth += 1
        elif c == "(":
            depth -= 1
            if depth == 0:
                return i
        i -= 1
    raise Unsupported("unbalanced parens: " + s)


# ---------------------------------------------------------------- places

def parse_place(s, i=0):
    """returns (place, next index). place = ('local','_5') | ('deref',p) | ('field',p,k,ty)
       | ('downcast',p,variant) | ('index',p,txt)"""
    if s[i] == "(":
        if s[i + 1] == "*":
            p, j = parse_place(s, i + 2)
            if s[j] != ")":
                raise Unsupported("place: " + s)
            p, j = ("deref", p), j + 1
        else:
            p, j = parse_place(s, i + 1)
            if s.startswith(" as ", j):
                k = j + 4
                depth = 0
                while not (s[k] == ")" and depth == 0):
                    if s[k] in "(<":
                        depth += 1
                    elif s[k] == ")" or (s[k] == ">" and s[k - 1] != "-"):
                        depth -= 1
                    k += 1
                p, j = ("downcast", p, s[j + 4:k]), k + 1
            elif s[j] == ".":
                m = re.match(r"\.(\d+): ", s[j:])
                if not m:
                    raise Unsupported("place field: " + s[j:j + 40])
                k = j + m.end()
                depth = 0
                t0 = k
                while not (s[k] == ")" and depth == 0):
                    if s[k] in "([{":
                        depth += 1
                    elif s[k] in ")]}":
                        depth -= 1
                    k += 1
                p, j = ("field", p, int(m.group(1)), s[t0:k]), k + 1
            else:
                raise Unsupported("place: " + s[i:i + 60])
    else:
        m = re.match(r"_\d+", s[i:])
        if not m:
            raise Unsupported("place: " + s[i:i + 60])
        p, j = ("local", m.group(0)), i + m.end()
    while j < len(s) and s[j] == "[":
        k = s.index("]", j)
        p, j = ("index", p, s[j + 1:k]), k + 1
    return p, j


def place_of(s):
    s = s.strip()
    p, j = parse_place(s, 0)
    if j != len(s):
        raise Unsupported("trailing text after place: %r" % s)
    return p


def parse_operand(s):
    s = s.strip()
    if s.startswith("no_retag "):
        s = s[9:]
    if s.startswith("copy "):
        return ("copy", place_of(s[5:]))
    if s.startswith("move "):
        return ("move", place_of(s[5:]))
    if s.startswith("const "):
        return ("const", s[6:].strip())
    if re.match(r"^[<A-Za-z_]", s):
        return ("fnitem", s)      # a function item / constructor used as a value
    raise Unsupported("operand: %r" % s)


BINOPS = {"Eq", "Ne", "Lt", "Le", "Gt", "Ge", "BitAnd", "BitOr", "BitXor", "Shl", "Shr", "Add", "Sub", "Mul",
          "Div", "Rem", "AddWithOverflow", "SubWithOverflow", "MulWithOverflow", "ShlUnchecked", "ShrUnchecked",
          "AddUnchecked", "SubUnchecked", "MulUnchecked", "Offset", "Cmp"}


def parse_rvalue(s):
    s = s.strip()
    if s.startswith("no_retag "):
        s = s[9:]
    if re.match(r"(copy|move|const) ", s):
        m = re.match(r"(.*) as (.*) \((\w+(?:\([^)]*\))?)\)$", s)
        if m and not s.startswith("const ") or (m and s.startswith("const ") and m.group(3) in
                                                 ("IntToInt", "Transmute", "PtrToPtr", "FloatToInt", "IntToFloat")):
            return ("cast", parse_operand(m.group(1)), m.group(2), m.group(3))
        return ("use", parse_operand(s))
    m = re.match(r"&(raw (?:const|mut) |mut |fake shallow |fake )?(.*)$", s)
    if m and not s.startswith("&&"):
        return ("ref", (m.group(1) or "").strip(), place_of(m.group(2)))
    m = re.match(r"discriminant\((.*)\)$", s)
    if m:
        return ("discr", place_of(m.group(1)))
    m = re.match(r"(\w+)\((.*)\)$", s)
    if m and m.group(1) in BINOPS:
        a = split_top(m.group(2))
        return ("binop", m.group(1), parse_operand(a[0]), parse_operand(a[1]))
    if m and m.group(1) in ("Not", "Neg"):
        return ("unop", m.group(1), parse_operand(m.group(2)))
    if m and m.group(1) in ("PtrMetadata", "Len"):
        raise Unsupported("rvalue " + s)
    if s.startswith("(") and s.endswith(")"):
        inner = s[1:-1].strip()
        parts = split_top(inner) if inner else []
        return ("agg", "tuple", None, [parse_operand(p) for p in parts])
    if s.startswith("["):
        m2 = re.match(r"\[(.*); (.*)\]$", s)
        if m2:
            return ("agg", "array_repeat", m2.group(2), [parse_operand(m2.group(1))])
        parts = split_top(s[1:-1])
        return ("agg", "array", None, [parse_operand(p) for p in parts])
    # struct / closure / coroutine aggregate:  Name { f: op, ... }
    if s.endswith("}") and " { " in s:
        k = s.index(" { ") if not s.startswith("{") else s.index("} { ") + 1
        name = s[:k].strip()
        body = s[k + 3:-1].strip()
        fields = []
        for part in split_top(body):
            fn_, val = part.split(": ", 1)
            fields.append((fn_.strip(), parse_operand(val)))
        return ("agg", "struct", name, fields)
    # tuple-like variant / struct constructor: Path::Variant(op, ..)
    if s.endswith(")"):
        o = match_paren_back(s, len(s) - 1)
        name = s[:o].strip()
        inner = s[o + 1:-1].strip()
        parts = split_top(inner) if inner else []
        return ("agg", "ctor", name, [parse_operand(p) for p in parts])
    # unit variant / unit struct
    if re.match(r"^[\w:<>', &\[\]\(\)]+$", s):
        return ("agg", "ctor", s, [])
    raise Unsupported("rvalue: %r" % s)


def parse_targets(s):
    """`[return: bb3, unwind: bb7]` | `bb3` | `unwind continue` ..."""
    s = s.strip()
    t = {}
    if s.startswith("["):
        for part in split_top(s[1:-1]):
            if ": " in part:
                k, v = part.split(": ", 1)
                t[k.strip()] = v.strip()
            else:
                t["unwind"] = part.replace("unwind ", "")
    elif s.startswith("bb"):
        t["return"] = s
    else:
        t["unwind"] = s.replace("unwind ", "")
    return t


def parse_terminator(s):
    s = s.strip().rstrip(";")
    if s == "return":
        return ("return",)
    if s == "unreachable":
        return ("unreachable",)
    if s.startswith("resume") or s == "unwind terminate" or s.startswith("unwind terminate"):
        return ("resume",)
    m = re.match(r"goto -> (bb\d+)$", s)
    if m:
        return ("goto", m.group(1))
    m = re.match(r"switchInt\((.*)\) -> \[(.*)\]$", s)
    if m:
        tg = []
        for part in split_top(m.group(2)):
            k, v = part.split(": ")
            tg.append((k.strip(), v.strip()))
        return ("switch", parse_operand(m.group(1)), tg)
    m = re.match(r"drop\((.*)\) -> (.*)$", s)
    if m:
        return ("drop", place_of(m.group(1)), parse_targets(m.group(2)))
    m = re.match(r"assert\((.*)\) -> (.*)$", s)
    if m:
        args = split_top(m.group(1))
        cond = args[0]
        neg = cond.startswith("!")
        return ("assert", parse_operand(cond[1:] if neg else cond), neg, args[1] if len(args) > 1 else "",
                parse_targets(m.group(2)))
    # call:  DEST = CALLEE(ARGS) -> TARGETS
    k = s.rfind(") -> ")
    if k >= 0 and " = " in s[:k]:
        targets = parse_targets(s[k + 5:])
        head = s[:k + 1]
        o = match_paren_back(head, len(head) - 1)
        args = split_top(head[o + 1:-1]) if head[o + 1:-1].strip() else []
        lhs, callee = head[:o].split(" = ", 1)
        return ("call", place_of(lhs), callee.strip(), [parse_operand(a) for a in args], targets)
    raise Unsupported("terminator: %r" % s)


def parse_stmt(s):
    s = s.strip().rstrip(";")
    if re.match(r"(StorageLive|StorageDead|FakeRead|PlaceMention|AscribeUserType|Coverage|nop|Retag|ConstEvalCounter|BackwardIncompatibleDropHint)", s):
        return None
    if s.startswith("assume("):
        return None
    m = re.match(r"discriminant\((.*)\) = (\d+)$", s)
    if m:
        return ("setdiscr", place_of(m.group(1)), int(m.group(2)))
    if s.startswith("Deinit("):
        return None
    k = s.find(" = ")
    if k < 0:
        raise Unsupported("statement: %r" % s)
    return ("assign", place_of(s[:k]), parse_rvalue(s[k + 3:]))


# ---------------------------------------------------------------- file level

FN_RE = re.compile(r"^fn (.*?)\((.*)\) -> (.*) \{$")
FN0_RE = re.compile(r"^fn (.*?)\((.*)\) \{$")
CONST_RE = re.compile(r"^(?:const|static|promoted\[\d+\] in) (.*?): (.*?) = \{$")


def parse_params(p):
    out = []
    for part in split_top(p):
        m = re.match(r"(?:mut )?(_\d+): (.*)$", part)
        if m:
            out.append((m.group(1), m.group(2)))
    return out


def parse_file(text, want=None):
    """want: optional predicate on the function name; bodies of other functions are skipped
    (but still indexed by name with .blocks == {})."""
    fns = {}
    lines = text.split("\n")
    i = 0
    n = len(lines)
    while i < n:
        ln = lines[i]
        m1 = re.match(r"^const (.*?): (.*?) = const (.*);$", ln)
        if m1:
            f = Fn("const " + m1.group(1), ln, [], m1.group(2), i + 1)
            f.inline_const = m1.group(3)
            f.key = f.name
            fns.setdefault(f.name, f)
            i += 1
            continue
        m = FN_RE.match(ln) or FN0_RE.match(ln) or CONST_RE.match(ln)
        if not m:
            i += 1
            continue
        if ln.startswith("fn "):
            name = m.group(1)
            params = parse_params(m.group(2))
            ret = m.group(3) if m.re is FN_RE else "()"
        else:
            name = "const " + m.group(1)
            params, ret = [], m.group(2)
        f = Fn(name, ln, params, ret, i + 1)
        j = i + 1
        body = []
        while j < n and lines[j] != "}":
            body.append(lines[j])
            j += 1
        f.src = body
        key = name
        k = 2
        while key in fns:
            key = "%s#%d" % (name, k)
            k += 1
        f.key = key
        fns[key] = f
        i = j + 1
    return fns


def parse_body(f):
    """fills f.locals / f.blocks (lazily, so that an unsupported construct in a function nobody
    asks for does not matter)."""
    if f.blocks:
        return f
    for loc, ty in f.params:
        f.locals[loc] = ty
    f.locals["_0"] = f.ret
    cur = None
    for raw in f.src:
        s = raw.strip()
        if not s or s.startswith("//"):
            continue
        m = re.match(r"let (?:mut )?(_\d+): (.*);$", s)
        if m:
            f.locals[m.group(1)] = m.group(2)
            continue
        m = re.match(r"debug (\S+) => (.*);$", s)
        if m:
            f.debug.setdefault(m.group(2), m.group(1))
            continue
        if s.startswith("scope ") or s == "}" or s.startswith("coroutine_") or s.startswith("let "):
            continue
        m = re.match(r"(bb\d+)( \(cleanup\))?: \{$", s)
        if m:
            cur = Block(m.group(1))
            f.blocks[cur.name] = cur
            if m.group(2):
                f.cleanup.add(cur.name)
            continue
        if cur is None:
            continue
        if cur.name in f.cleanup:
            continue  # unwinding paths are not followed (a panic ends the path)
        # terminator or statement?
        if re.match(r"(return|unreachable|resume|goto |switchInt\(|drop\(|assert\(|unwind )", s) or \
           re.search(r"\) -> (\[|bb\d+|unwind )", s):
            cur.term = parse_terminator(s)
        else:
            st = parse_stmt(s)
            if st:
                cur.stmts.append(st)
    return f
