"""Shared plumbing of the /verif runner: scratch copies of /repo, job pool,
verdict bookkeeping, known findings, evidence files.

Nothing here decides a property; engines (vlib/kani.py, mirsym/) do.  Verdict
vocabulary used everywhere:

  holds         the solver discharged the query inside its stated bound
  violated      the solver returned a counterexample AND native replay reproduced it
  known         as `violated`, and the counterexample is listed in known_findings.json
  inconclusive  anything else (timeout, OOM, parse failure, vacuous harness,
                counterexample that does not replay) -> exit code 2, never a VIOLATION
"""
import atexit
import json
import os
import re
import shutil
import signal
import subprocess
import sys
import time
from concurrent.futures import ThreadPoolExecutor

VERIF = os.path.dirname(os.path.dirname(os.path.abspath(__file__)))
REPO = os.environ.get("VERIF_REPO", "/repo")
SCRATCH_ROOT = os.environ.get("VERIF_SCRATCH", "/var/tmp")
NCPU = int(os.environ.get("VERIF_JOBS", str(os.cpu_count() or 4)))

BASE_ENV = dict(os.environ)
BASE_ENV.update({"CARGO_NET_OFFLINE": "true", "CARGO_TERM_COLOR": "never"})
# the runner is independent of whatever RUSTFLAGS the caller has
for k in ("RUSTFLAGS", "CARGO_TARGET_DIR", "CARGO_BUILD_TARGET_DIR"):
    BASE_ENV.pop(k, None)

_scratch_dirs = []


def _cleanup():
    for d in _scratch_dirs:
        shutil.rmtree(d, ignore_errors=True)


atexit.register(_cleanup)


def _on_signal(signum, frame):
    _cleanup()
    os._exit(2)


signal.signal(signal.SIGTERM, _on_signal)
signal.signal(signal.SIGINT, _on_signal)


def log(*a):
    print(*a, file=sys.stderr, flush=True)


def new_scratch(tag):
    """An empty scratch directory, outside /repo and /verif, removed at exit."""
    os.makedirs(SCRATCH_ROOT, exist_ok=True)
    d = os.path.join(SCRATCH_ROOT, "calloop-verif.%s.%d" % (tag, os.getpid()))
    shutil.rmtree(d, ignore_errors=True)
    os.makedirs(d)
    if not os.environ.get("VERIF_KEEP"):
        _scratch_dirs.append(d)
    return d


def copy_repo(dst):
    """Copy /repo's *working tree* (so uncommitted edits are what gets checked)."""
    os.makedirs(dst, exist_ok=True)
    subprocess.run(
        ["rsync", "-a", "--delete", "--exclude", "/target", "--exclude", "/.git",
         "--exclude", "/doc", REPO.rstrip("/") + "/", dst.rstrip("/") + "/"],
        check=True)


def repo_rev():
    try:
        head = subprocess.run(["git", "-C", REPO, "rev-parse", "--short", "HEAD"],
                              capture_output=True, text=True).stdout.strip()
        dirty = subprocess.run(["git", "-C", REPO, "status", "--porcelain", "--", "src", "Cargo.toml"],
                               capture_output=True, text=True).stdout.strip()
        return head + ("+dirty" if dirty else "")
    except Exception:
        return "unknown"


def run(cmd, cwd=None, timeout=None, env=None, mem_gb=None, log_path=None):
    """Run a command, capture combined output. Returns (rc, output, seconds);
    rc = -9 on timeout."""
    e = dict(BASE_ENV)
    if env:
        e.update(env)

    def pre():
        os.setsid()
        if mem_gb:
            import resource
            lim = int(mem_gb * (1 << 30))
            resource.setrlimit(resource.RLIMIT_AS, (lim, lim))

    t0 = time.time()
    p = subprocess.Popen(cmd, cwd=cwd, env=e, stdout=subprocess.PIPE, stderr=subprocess.STDOUT,
                         text=True, errors="replace", preexec_fn=pre)
    try:
        out, _ = p.communicate(timeout=timeout)
        rc = p.returncode
    except subprocess.TimeoutExpired:
        try:
            os.killpg(p.pid, signal.SIGKILL)
        except ProcessLookupError:
            pass
        out, _ = p.communicate()
        rc = -9
    dt = time.time() - t0
    if log_path:
        with open(log_path, "w") as f:
            f.write("$ %s\n" % " ".join(cmd))
            f.write(out)
    return rc, out, dt


def pool_map(fn, items, workers=None):
    workers = max(1, min(workers or NCPU, len(items) or 1))
    with ThreadPoolExecutor(max_workers=workers) as ex:
        return list(ex.map(fn, items))


# ---------------------------------------------------------------- known findings

def load_known():
    p = os.path.join(VERIF, "known_findings.json")
    if not os.path.exists(p):
        return []
    return json.load(open(p))


def match_known(prop, key):
    """A finding suppresses only the exact (property, key) it lists, and only
    with status 'known'; 'fixed' entries suppress nothing."""
    for f in load_known():
        if f.get("status") == "known" and f.get("property") == prop and f.get("key") == key:
            return f
    return None


# ---------------------------------------------------------------- evidence

def write_evidence(prop, tier, level, results, wall_s, extra_cov=None, assumptions=None,
                   violations=0):
    """results: list of dicts produced by engines, each at least
       {id, engine, status, functions, bounds, solver_s, detail, nontrivial}"""
    os.makedirs(os.path.join(VERIF, "evidence"), exist_ok=True)
    decided = [r for r in results if r["status"] in ("holds", "known", "violated")]
    holds = [r for r in results if r["status"] == "holds"]
    nontriv = sorted({r["id"] for r in results if r.get("nontrivial")})
    samples = []
    for r in results[:60]:
        samples.append({k: r.get(k) for k in
                        ("id", "engine", "status", "what", "functions", "bounds", "checks",
                         "cover", "solver_s", "detail") if r.get(k) is not None})
    known = [r for r in results if r["status"] == "known"]
    cov = {
        # obligations claimed by this run = everything that ran minus the recorded known findings (those are
        # reported as KNOWN-FINDING lines and listed under known_findings_hit; they are NOT counted as discharged)
        "obligations": len(results) - len(known),
        "discharged": len(holds),
        "evaluations": sum(int(r.get("queries", 1)) for r in results),
        "distinct_nontrivial": len(nontriv),
        "rule": ("one evaluation = one solver query (a Kani/CBMC harness run over the compiled "
                 "code, or one z3 satisfiability query over the MIR-derived encoding); an "
                 "obligation counts as non-trivial only if its reachability witness was "
                 "satisfied (Kani cover!/z3 path-feasibility query) so that it cannot pass "
                 "vacuously; ids are distinct obligation names"),
        "samples": samples,
        "checker_cmd": "cd /verif && ./check %s --tier %s" % (prop, tier),
        "trusted_base": [
            "rustc MIR -> Kani 0.68 goto translation, CBMC 6.11 + cadical (engine K)",
            "textual MIR of nightly rustc as parsed by /verif/mirsym, z3 4.8.12 (engines M, P)",
            "environment model crates /verif/env/* (polling, rustix, nix, tracing, world)",
            "the informal composition argument of DESIGN.md section 2",
        ],
        "exhaustive": False,
        "bounded": True,
        "explanation": "bounded solver-decided obligations over the real code (Kani/CBMC harnesses, z3 queries over MIR path "
                       "summaries, z3 interleaving queries); every obligation holds for ALL values inside its stated bound; "
                       "the step to the property over all histories/schedules is the informal composition of DESIGN.md section 2",
        "solver_s": round(sum(float(r.get("solver_s") or 0) for r in results), 3),
        "functions_encoded": sorted({f for r in results for f in (r.get("functions") or [])}),
        "engines": sorted({r["engine"] for r in results}),
        "decided": len(decided),
        "inconclusive": [r["id"] for r in results if r["status"] == "inconclusive"],
        "known_findings_hit": [r["id"] for r in results if r["status"] == "known"],
        "repo_rev": repo_rev(),
    }
    if extra_cov:
        cov.update(extra_cov)
    ev = {
        "property_id": prop,
        "tier": tier,
        "seed": int(os.environ.get("VERIF_SEED", "0") or 0),
        "level": level,
        "coverage": cov,
        "assumptions": assumptions or [],
        "wall_s": round(wall_s, 2),
        "violations": violations,
    }
    path = os.path.join(VERIF, "evidence", prop + ".json")
    tmp = path + ".tmp"
    with open(tmp, "w") as f:
        json.dump(ev, f, indent=1)
    os.replace(tmp, path)
    return path
