"""Engine K: Kani/CBMC over the compiled code of a scratch copy of /repo.

The scratch copy is /repo's working tree plus
  * [patch.crates-io] to the environment model crates in /verif/env,
  * one `#[cfg(kani)] #[path=...] mod verif_inner;` line appended to each source
    file that has harnesses (a child module sees its parent's private items),
  * calloop's own #[cfg(test)] modules switched off (they are not under
    verification and need dev-dependencies the model crates do not provide;
    needed only so that `cargo kani playback`, which builds in test mode,
    compiles).
Nothing is written to /repo.
"""
import glob
import os
import re
import shutil

from . import common
from .common import run, log

# harness module name -> (source file to attach to, rust module path)
MODS = {
    "token": ("src/token.rs", "token"),
    "list": ("src/list.rs", "list"),
    "sys": ("src/sys.rs", "sys"),
    "loop_logic": ("src/loop_logic.rs", "loop_logic"),
    "io": ("src/io.rs", "io"),
    "sources": ("src/sources/mod.rs", "sources"),
    "timer": ("src/sources/timer.rs", "sources::timer"),
    "generic": ("src/sources/generic.rs", "sources::generic"),
    "transient": ("src/sources/transient.rs", "sources::transient"),
    "signals": ("src/sources/signals.rs", "sources::signals"),
    "ping": ("src/sources/ping/eventfd.rs", "sources::ping::eventfd"),
    "channel": ("src/sources/channel.rs", "sources::channel"),
}

ENV_ASSUMPTIONS = [
    "env/polling: epoll contract (EEXIST on double add, ENOENT on modify/delete of an "
    "unregistered fd, key usize::MAX rejected, oneshot disarm, level re-report, sticky notify, "
    "wait(timeout) with nothing ready advances the model clock by exactly the timeout)",
    "env/rustix: eventfd = u64 counter (read returns-and-zeroes or EAGAIN; write adds or EAGAIN), "
    "fcntl O_NONBLOCK flag per fd",
    "env/tracing: logging macros have empty bodies",
    "std::time::Instant::now stubbed with the model clock ((secs,nanos) pair, no division)",
    "Kani harness discipline: Results are inspected then mem::forget-ed (error drop glue is not "
    "part of any property); owners of Rc/Arc/Box<dyn> are forgotten at harness end",
]


def prepare_scratch(tag, mods_needed):
    """Returns (scratch_root, crate_dir) or raises RuntimeError(reason)."""
    root = common.new_scratch(tag)
    crate = os.path.join(root, "calloop")
    common.copy_repo(crate)
    # -- Cargo.toml of the copy
    p = os.path.join(crate, "Cargo.toml")
    s = open(p).read()
    s = re.sub(r"members\s*=\s*\[[^\]]*\]", "members = []", s)
    s = re.sub(r"\[dev-dependencies\].*?(?=\n\[)", "", s, flags=re.S)
    s = re.sub(r"\[\[test\]\].*?(?=\n\[|\Z)", "", s, flags=re.S)
    s = re.sub(r"\[\[bench\]\].*?(?=\n\[|\Z)", "", s, flags=re.S)
    s = re.sub(r"\[\[example\]\].*?(?=\n\[|\Z)", "", s, flags=re.S)
    s = s.replace("[package]\n", "[package]\nautoexamples = false\nautobenches = false\n", 1)
    if "[dependencies]\n" not in s:
        raise RuntimeError("Cargo.toml has no [dependencies] section")
    s = s.replace("[dependencies]\n",
                  '[dependencies]\nverif-world = { path = "%s/env/world" }\n' % common.VERIF, 1)
    s += """
[patch.crates-io]
polling = { path = "%(v)s/env/polling" }
rustix = { path = "%(v)s/env/rustix" }
tracing = { path = "%(v)s/env/tracing" }
nix = { path = "%(v)s/env/nix" }
""" % {"v": common.VERIF}
    if "[lints.rust]" not in s:
        s += "\n[lints.rust]\nunexpected_cfgs = { level = \"allow\", check-cfg = ['cfg(kani)'] }\n"
    open(p, "w").write(s)
    # -- calloop's own test modules off (see module docstring)
    for f in glob.glob(os.path.join(crate, "src", "**", "*.rs"), recursive=True):
        t = open(f).read()
        t2 = re.sub(r"#\[cfg\(test\)\]", "#[cfg(any())]", t)
        t2 = re.sub(r"#\[cfg\(all\(([^\]]*?)\btest\b", r"#[cfg(all(\1any()", t2)
        if t2 != t:
            open(f, "w").write(t2)
    # -- harness modules
    vk = os.path.join(crate, "vk")
    os.makedirs(vk)
    shutil.copy(os.path.join(common.VERIF, "kani", "inner", "common.rs"), vk)
    for m in sorted(mods_needed):
        rel, _ = MODS[m]
        src = os.path.join(crate, rel)
        if not os.path.exists(src):
            raise RuntimeError("source file %s is missing in /repo" % rel)
        shutil.copy(os.path.join(common.VERIF, "kani", "inner", m + ".rs"), vk)
        with open(src, "a") as f:
            f.write('\n#[cfg(kani)]\n#[path = "%s/%s.rs"]\nmod verif_inner;\n' % (vk, m))
    for d in ("examples", "benches", "tests"):
        shutil.rmtree(os.path.join(crate, d), ignore_errors=True)
    return root, crate


def _harness_path(h):
    return "%s::verif_inner::%s" % (MODS[h["mod"]][1], h["name"])


def _resolve_unwindset(h, crate, tdir, feat, timeout):
    """loop ids carry the crate hash: resolve (substring -> bound) against
    `cbmc --show-loops` of this build."""
    cmd = ["cargo", "kani", "--only-codegen", "--harness", _harness_path(h), "--exact",
           "--target-dir", tdir] + feat
    if h.get("stub"):
        cmd += ["-Z", "stubbing"]
    rc, out, dt = run(cmd, cwd=crate, timeout=timeout, mem_gb=24)
    if rc != 0:
        return None, "codegen failed:\n" + out[-3000:]
    outs = glob.glob(os.path.join(tdir, "kani", "**", "*.out"), recursive=True)
    outs = [o for o in outs if h["name"] in os.path.basename(o)] or outs
    if not outs:
        return None, "no goto binary found"
    rc, lo, _ = run(["cbmc", outs[0], "--show-loops"], timeout=120)
    ids = re.findall(r"^Loop (\S+):", lo, flags=re.M)
    sel = []
    for sub, n in h["unwindset"]:
        hit = [i for i in ids if sub in i]
        if not hit:
            # a loop that is not in the binary needs no bound; recorded
            continue
        sel += ["%s:%d" % (i, n) for i in hit]
    return sel, None


def run_harness(h, crate, root, tier):
    """Run one harness; returns a result dict (see common.write_evidence)."""
    name = h["name"]
    tdir = os.path.join(root, "t_" + name)
    timeout = h.get("timeout_t", 1800) if tier == "thorough" else h.get("timeout_q", 420)
    feat = []
    if h.get("features"):
        feat = ["--features", ",".join(h["features"])]
    res = {
        "id": "K:" + name, "engine": "kani", "what": h.get("what", ""),
        "functions": h.get("functions", []),
        "bounds": h.get("bounds", ""), "status": "inconclusive", "detail": "",
        "nontrivial": False, "queries": 1, "solver_s": 0.0, "failed_tags": [],
    }
    cmd = ["cargo", "kani", "--harness", _harness_path(h), "--exact", "--target-dir", tdir,
           "-Z", "concrete-playback", "--concrete-playback=print"] + feat
    if h.get("stub"):
        cmd += ["-Z", "stubbing"]
    if h.get("unwindset"):
        sel, err = _resolve_unwindset(h, crate, tdir, feat, timeout)
        if err:
            res["detail"] = err
            return res
        if sel:
            cmd += ["-Z", "unstable-options", "--cbmc-args", "--unwindset", ",".join(sel)]
    logp = os.path.join(root, "log_" + name + ".txt")
    rc, out, dt = run(cmd, cwd=crate, timeout=timeout, mem_gb=h.get("mem_gb", 40), log_path=logp)
    res["wall_s"] = round(dt, 2)
    res["raw_log"] = logp
    if rc == -9:
        res["detail"] = "no verdict inside %d s (timeout)" % timeout
        return res
    m = re.search(r"Verification Time: ([0-9.]+)s", out)
    if m:
        res["solver_s"] = float(m.group(1))
    m = re.search(r"\*\* (\d+) of (\d+) failed", out)
    if m:
        res["checks"] = int(m.group(2))
    mc = re.search(r"\*\* (\d+) of (\d+) cover properties satisfied", out)
    cover_ok = bool(mc and mc.group(1) == mc.group(2) and int(mc.group(2)) > 0)
    if mc:
        res["cover"] = "%s/%s" % (mc.group(1), mc.group(2))
    if "VERIFICATION:- SUCCESSFUL" in out:
        if "Status: ERROR" in out or re.search(r"Status: (UNDETERMINED|UNKNOWN)", out):
            res["detail"] = "checks with status ERROR/UNDETERMINED"
            return res
        if h.get("expect_panic"):
            # #[kani::should_panic]: Kani itself fails the harness when no panic is reachable
            if "encountered one or more panics as expected" not in out:
                res["detail"] = "should_panic harness without the expected-panic marker"
                return res
            # ... but the panic must be calloop's own refusal, not one of the harness's tagged assertions
            own = sorted({m.group(1) for desc, fil in re.findall(r"Failed Checks: (.*)\n\s*File: \"([^\"]*)\"", out)
                          for m in [re.search(r"\b(C\d\d\.[A-Za-z0-9_.-]+)", desc)] if m and "/vk/" in fil})
            if own:
                res["failed_tags"] = own
                res["playback"] = re.findall(r"```\n(.*?)```", out, flags=re.S)
                res["status"] = "cex"
                res["detail"] = "counterexample for: " + ", ".join(own)
                res["need_tag_in_replay"] = True
                return res
            cover_ok = True
        if not cover_ok:
            res["detail"] = "vacuous: reachability witness (kani::cover!) not satisfied"
            return res
        res["status"] = "holds"
        res["nontrivial"] = True
        return res
    if "VERIFICATION:- FAILED" in out:
        failed = re.findall(r"Failed Checks: (.*)\n\s*File: \"([^\"]*)\", line (\d+), in (\S+)", out)
        tags = []
        other = []
        for desc, fil, line, fn in failed:
            desc = desc.strip()
            mt = re.search(r"\b(C\d\d\.[A-Za-z0-9_.-]+)", desc)
            if mt and "/vk/" in fil:
                tags.append(mt.group(1))
            elif "unwinding assertion" in desc:
                other.append("unwind:" + desc)
            else:
                # a failing check inside calloop/std reached from the harness
                # (panic, overflow, unreachable!, RefCell double borrow ...)
                tags.append("panic@%s:%s[%s]" % (os.path.basename(fil), line, desc[:60]))
        if "Status: ERROR" in out:
            other.append("status-error")
        res["failed_tags"] = sorted(set(tags))
        res["other_failures"] = other
        if other and not tags:
            res["detail"] = "inconclusive: " + "; ".join(other[:4])
            return res
        if not tags:
            res["detail"] = "FAILED without a parsable failed check"
            return res
        # extract playback tests
        tests = re.findall(r"```\n(.*?)```", out, flags=re.S)
        res["playback"] = tests
        res["status"] = "cex"          # to be confirmed by replay
        res["detail"] = "counterexample for: " + ", ".join(res["failed_tags"])
        return res
    res["detail"] = "no verdict line (rc=%s); tail: %s" % (rc, out[-1500:])
    return res


def replay_many(items, crate, root):
    """items: [(h, res)] with res['status'] == 'cex'.  Runs Kani's concrete-playback tests
    natively (dev profile) against the scratch copy, one cargo run per (module, features).
    Returns {harness name: (reproduced, text)}."""
    out_map = {}
    groups = {}
    for h, r in items:
        groups.setdefault((h["mod"], tuple(h.get("features") or ())), []).append((h, r))
    for (mod, feats), grp in groups.items():
        vkfile = os.path.join(crate, "vk", mod + ".rs")
        orig = open(vkfile).read()
        body = ""
        names = {}
        for h, r in grp:
            mine = []
            for t in r.get("playback") or []:
                if "Check for `cover`" in t:
                    continue
                m = re.search(r"fn (kani_concrete_playback_\w+)\(", t)
                if m:
                    mine.append(m.group(1))
                    body += "\n" + t + "\n"
            names[h["name"]] = mine
        if not body:
            for h, r in grp:
                out_map[h["name"]] = (False, "no playback test produced")
            continue
        open(vkfile, "w").write(orig + body)
        feat = ["--features", ",".join(feats)] if feats else []
        try:
            cmd = ["cargo", "kani", "playback", "-Z", "concrete-playback", "--lib"] + feat + \
                  ["--", "kani_concrete_playback", "--test-threads", "1"]
            rc, out, dt = run(cmd, cwd=crate, timeout=900)
        finally:
            open(vkfile, "w").write(orig)
        for h, r in grp:
            repro = False
            for n in names[h["name"]]:
                if re.search(r"test \S*%s \.\.\. FAILED" % re.escape(n), out):
                    repro = True
            if r.get("need_tag_in_replay") and not any(t in out for t in r.get("failed_tags") or []):
                repro = False       # the native run must die in the tagged assertion, not in the expected panic
            mine_txt = "\n".join(t for t in (r.get("playback") or []) if "Check for `cover`" not in t)
            panics = "\n".join(l for l in out.splitlines() if "panicked at" in l or "assertion" in l.lower())[:3000]
            out_map[h["name"]] = (repro, mine_txt + "\n// ---- native run (cargo kani playback) ----\n// "
                                  + panics.replace("\n", "\n// "))
    return out_map


def replay(h, res, crate, root):
    return replay_many([(h, res)], crate, root)[h["name"]]
