"""What is checked for which property.  One entry per property id; `k` = Kani
harnesses (engine K), `m` = MIR/SMT obligations and interleaving queries
(engines M and P, see mirsym/obligations.py)."""

Q = ("quick", "thorough")
T = ("thorough",)


def H(name, mod, what, functions, bounds="", tiers=Q, **kw):
    d = dict(name=name, mod=mod, what=what, functions=functions, bounds=bounds, tiers=tiers)
    d.update(kw)
    return d


TOKEN_FNS = ["token::TokenInner::from(usize)", "usize::from(TokenInner)", "TokenInner::new",
             "TokenInner::increment_sub_id", "TokenInner::increment_version",
             "TokenInner::same_source_as", "TokenInner::forget_sub_id"]

K_TOKEN = [
    H("k_c20_raw_roundtrip", "token", "encode(decode(raw)) == raw and field positions, all 2^64 keys",
      TOKEN_FNS[:2], "full 64-bit key space, no unwinding needed"),
    H("k_c20_fields_roundtrip", "token", "decode(encode(id,gen,sub)) == (id,gen,sub) for every triple",
      TOKEN_FNS[:2], "all (u32,u16,u16)"),
    H("k_c20_injective", "token", "two triples share a key iff they are equal", TOKEN_FNS[:2],
      "all pairs of triples"),
    H("k_c20_notify_key", "token", "key == usize::MAX only for (2^32-1, 0xffff, 0xffff)", TOKEN_FNS[1:2],
      "all triples"),
    H("k_c20_sub_increment", "token", "increment_sub_id is +1 on sub id only, below 0xffff",
      ["TokenInner::increment_sub_id"], "all triples with sub < 0xffff"),
    H("k_c20_sub_overflow_panics", "token", "increment_sub_id at 0xffff panics (does not wrap)",
      ["TokenInner::increment_sub_id"], "all (id, gen) with sub = 0xffff", expect_panic=True),
    H("k_c20_version_increment", "token", "increment_version: gen+1 mod 2^16, sub reset, other source",
      ["TokenInner::increment_version", "TokenInner::same_source_as"], "all triples"),
    H("k_c20_same_source", "token", "same_source_as <=> (id,gen) equal; forget_sub_id idempotent",
      ["TokenInner::same_source_as", "TokenInner::forget_sub_id"], "all pairs of triples"),
    H("k_c20_new", "token", "TokenInner::new: Ok iff id fits u32, generation 0, sub 0", ["TokenInner::new"],
      "all usize ids"),
]

PROPS = {}

PROPS["C20"] = dict(
    level="proof",
    k=K_TOKEN,
    m=[],
    bounds="none beyond the 64-bit word size: every harness ranges over the full value space of its "
           "inputs; 32/16-bit cfg variants of token.rs are not compiled on this target",
    outside="target_pointer_width 32/16 variants; sub-token distinctness for n tokens follows by "
            "induction from the single-step TokenFactory/increment_sub_id harnesses",
)
