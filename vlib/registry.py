"""What is checked for which property.  One entry per property id; `k` = Kani
harnesses (engine K), `m` = MIR/SMT obligations and interleaving queries
(engines M and P, see mirsym/obligations.py)."""

Q = ("quick", "thorough")
T = ("thorough",)


def H(name, mod, what, functions, bounds="", tiers=Q, **kw):
    d = dict(name=name, mod=mod, what=what, functions=functions, bounds=bounds, tiers=tiers)
    d.update(kw)
    return d


TOKEN_FNS = ["token::TokenInner::from(usize)", "usize::from(TokenInner)", "TokenInner::new",
             "TokenInner::increment_sub_id", "TokenInner::increment_version",
             "TokenInner::same_source_as", "TokenInner::forget_sub_id"]

K_TOKEN = [
    H("k_c20_raw_roundtrip", "token", "encode(decode(raw)) == raw and field positions, all 2^64 keys",
      TOKEN_FNS[:2], "full 64-bit key space, no unwinding needed"),
    H("k_c20_fields_roundtrip", "token", "decode(encode(id,gen,sub)) == (id,gen,sub) for every triple",
      TOKEN_FNS[:2], "all (u32,u16,u16)"),
    H("k_c20_injective", "token", "two triples share a key iff they are equal", TOKEN_FNS[:2],
      "all pairs of triples"),
    H("k_c20_notify_key", "token", "key == usize::MAX only for (2^32-1, 0xffff, 0xffff)", TOKEN_FNS[1:2],
      "all triples"),
    H("k_c20_sub_increment", "token", "increment_sub_id is +1 on sub id only, below 0xffff",
      ["TokenInner::increment_sub_id"], "all triples with sub < 0xffff"),
    H("k_c20_sub_overflow_panics", "token", "increment_sub_id at 0xffff panics (does not wrap)",
      ["TokenInner::increment_sub_id"], "all (id, gen) with sub = 0xffff", expect_panic=True),
    H("k_c20_version_increment", "token", "increment_version: gen+1 mod 2^16, sub reset, other source",
      ["TokenInner::increment_version", "TokenInner::same_source_as"], "all triples"),
    H("k_c20_same_source", "token", "same_source_as <=> (id,gen) equal; forget_sub_id idempotent",
      ["TokenInner::same_source_as", "TokenInner::forget_sub_id"], "all pairs of triples"),
    H("k_c20_new", "token", "TokenInner::new: Ok iff id fits u32, generation 0, sub 0", ["TokenInner::new"],
      "all usize ids"),
]

PROPS = {}

PROPS["C20"] = dict(
    level="proof",
    k=K_TOKEN,
    m=[],
    bounds="none beyond the 64-bit word size: every harness ranges over the full value space of its "
           "inputs; 32/16-bit cfg variants of token.rs are not compiled on this target",
    outside="target_pointer_width 32/16 variants; sub-token distinctness for n tokens follows by "
            "induction from the single-step TokenFactory/increment_sub_id harnesses",
)

DISP_FNS = ["<RefCell<DispatcherInner<S,F>> as EventDispatcher>::register",
            "<RefCell<DispatcherInner<S,F>> as EventDispatcher>::reregister",
            "<RefCell<DispatcherInner<S,F>> as EventDispatcher>::unregister",
            "AdditionalLifecycleEventsSet::register", "AdditionalLifecycleEventsSet::unregister"]

K_SOURCES = {
    "bitor": H("k_c09_bitor", "sources", "PostAction | and |= over all 16 pairs",
               ["<PostAction as BitOr>::bitor", "<PostAction as BitOrAssign>::bitor_assign"], "all 16 pairs"),
    "idle": H("k_c13_idle_option", "sources", "Option<F> idle wrapper: dispatch runs iff not cancelled",
              ["<Option<F> as IdleDispatcher>::dispatch", "<Option<F> as CancellableIdle>::cancel"], "both cases"),
}

LC_SHAPES = ["f0r0_n0", "f0r0_n1", "f0r1_n0", "f0r1_n1", "f1r0_n0", "f1r0_n1", "f1r0_n2", "f1r1_n0p0",
             "f1r1_n1p0", "f1r1_n1p1", "f1r1_n2p0", "f1r1_n2p1", "f1r1_n2p2"]
K_LC = [H("k_c14_lc_" + sh, "sources",
          "inductive step from the invariant state of shape %s (f=opted in, r=registered, n=foreign "
          "entries, p=position of own entry): one symbolic register|reregister|unregister with symbolic "
          "failure of the source's own call re-establishes 'listed exactly once iff registered and opted "
          "in' and leaves foreign entries untouched" % sh,
          DISP_FNS, "1 step, concrete set shape, symbolic tokens/operation/failure; instantiation "
          "DispatcherInner<LcMock, fn>, Data=(); global unwind 3, Vec::retain_mut unwound 6",
          unwindset=[("retain_mut", 6), ("contains", 6)], timeout_q=600) for sh in LC_SHAPES]
K_LC2 = [H("k_c14_lc2_" + sh, "sources", "two consecutive steps from shape " + sh, DISP_FNS,
           "2 steps, unwind 3 + retain_mut 6", unwindset=[("retain_mut", 6), ("contains", 6)], tiers=T, timeout_t=2400)
         for sh in ["f1r0_n1", "f1r1_n1p0", "f1r1_n1p1"]]

K_REENT = [H("k_c08_reentrant_defers_" + sh, "sources",
             "unregister/reregister on a dispatcher whose RefCell is mutably borrowed (its callback is running) "
             "return Ok(false) and touch neither source nor lifecycle set; outside they return Ok(true), reach "
             "the source and clear the entry (shape %s)" % sh,
             DISP_FNS[1:3], "invariant pre-state with one foreign entry; DispatcherInner<LcMock, fn>; unwind 3, "
             "retain_mut/contains 6", unwindset=[("retain_mut", 6), ("contains", 6)], timeout_q=600)
           for sh in ["f1p0", "f1p1", "f0"]]

LIST_FNS = ["SourceList::get", "SourceList::get_mut", "SourceList::vacant_entry", "TokenInner::increment_version"]
K_LIST = [H("k_c01_list_get", "list", "get/get_mut on an arbitrary 3-slot list (symbolic generations and occupancy) "
            "with an arbitrary 64-bit token: Ok <=> id < len and generation equal; returns slot[id]",
            LIST_FNS[:2], "3 slots, all 2^64 tokens, Data=()")] + \
         [H("k_c06_list_vacant_" + sh, "list", "vacant_entry on a 2-slot list (occupancy %s, symbolic generations): "
            "lowest vacant slot reused with generation+1 mod 2^16 or append at generation 0; other slots untouched; "
            "old token of the reused slot dead, new token live" % sh,
            LIST_FNS, "2 slots, all generations, concrete occupancy shape, unwind 4", timeout_q=600)
          for sh in ["00", "01", "10", "11"]]

K_SYS = {
    "selftest": H("k_selftest_instant_layout", "sys", "self-test: Instant built from (secs,nanos) orders and subtracts "
                  "as expected and Instant::now is the stubbed model clock", ["std::time::Instant (layout assumption)"],
                  "all instants below 10^6 s", stub=True),
    "cvt_mode": H("k_c02_cvt_mode", "sys", "cvt_mode over all Mode x supports_level", ["sys::cvt_mode"], "all 6 inputs"),
    "cvt_interest": H("k_c02_cvt_interest", "sys", "cvt_interest: key = token, interest passed through",
                      ["sys::cvt_interest"], "all tokens x 4 interests"),
    "factory": H("k_c20_token_factory", "sys", "TokenFactory: first token is (id,gen,0); from any state token() returns "
                 "the state and advances by exactly one; tokens belong to the source",
                 ["TokenFactory::new", "TokenFactory::token", "TokenFactory::registration_token"],
                 "all 2^64 start tokens, any sub id < 0xffff"),
    "factory_x": H("k_c20_token_factory_exhaustion", "sys", "a factory at the last sub-id panics on the following requests instead of repeating a token",
                   ["TokenFactory::token", "TokenInner::increment_sub_id"], "all sources, state sub-id = 0xffff", expect_panic=True),
    "table": H("k_c02_poll_table", "sys", "Poll::register/reregister/unregister leave exactly (fd, interest, mode, key) / "
               "nothing in the modelled kernel table; double register and reregister of an unregistered fd fail and "
               "change nothing", ["Poll::register", "Poll::reregister", "Poll::unregister", "sys::cvt_mode", "sys::cvt_interest"],
               "symbolic interest/mode/token, one fd, unwind 2"),
    "reports": H("k_c02_poll_reports_ready_fd", "sys", "one registered fd with symbolic interest/mode/readiness: Poll::poll "
                 "returns one event with the registered token and the readiness cut to the interest iff ready; a second "
                 "poll re-reports only in Level mode", ["Poll::poll", "Poll::register"], "1 fd, unwind 3", stub=True),
    "rearm": H("k_c02_rearm_and_new_transition", "sys", "after a first report: Level keeps reporting; Edge reports again iff the "
               "readiness went away and came back or the fd was re-registered; OneShot reports again iff re-registered; the "
               "event carries the token of the latest (re)registration", ["Poll::poll", "Poll::register", "Poll::reregister"],
               "1 fd READ interest, symbolic mode/tokens/blink/rearm, unwind 3", stub=True),
    "clamp": H("k_c12_timeout_clamp", "sys", "Poll::poll waits min(timeout, earliest deadline - now): zero for an expired "
               "timer, user timeout unchanged without timers, until the deadline without timeout, forever only with "
               "neither; zero timeout never blocks; timer event in the batch iff deadline reached",
               ["Poll::poll", "TimerWheel::next_deadline", "TimerWheel::next_expired"],
               "0-1 timer, symbolic now/deadline/timeout below 10^6 s with every nanosecond value, unwind 3", stub=True),
}

GEN_FNS = ["<Generic<F,E> as EventSource>::process_events", "<Generic<F,E> as EventSource>::register",
           "<Generic<F,E> as EventSource>::reregister", "<Generic<F,E> as EventSource>::unregister",
           "Generic::unwrap", "<Generic<F,E> as Drop>::drop", "Poll::register", "Poll::reregister", "Poll::unregister"]
K_GEN = {
    "match": H("k_c01_generic_token_match", "generic", "Generic::process_events invokes the callback iff the event token "
               "equals the stored token (None = unregistered ignores everything), with the event's readiness; the "
               "callback's action is returned unchanged, foreign events give Continue", GEN_FNS[:1],
               "all 2^64 x 2^64 token pairs, instantiation Generic<MFd, io::Error>"),
    "steps": H("k_c16_generic_steps", "generic", "3 symbolic steps of register/reregister/unregister each with a symbolic "
               "poller fault: kernel table has the fd <=> token.is_some() <=> poller.is_some(), key = stored token; "
               "a faulty call changes nothing", GEN_FNS[1:4] + GEN_FNS[6:], "3 steps from unregistered, 1 fd, unwind 2"),
    "exact": H("k_c16_generic_register_exact", "generic", "after register/reregister the table carries exactly the current "
               "interest, mode, key; a failed register leaves token/poller None, table untouched, and can be retried",
               GEN_FNS[1:3] + GEN_FNS[6:8], "symbolic interest/mode/token/fault, unwind 2"),
}

K_GEN_DROP = [H("k_c16_generic_%s_%s" % (how, st), "generic", "Generic %s in state '%s': the fd is not in the poller afterwards and "
                "Poller::delete is called iff it was registered" % (how, st), GEN_FNS[4:6],
                "concrete state, symbolic token/interest/mode, unwind 2")
              for how in ("drop", "unwrap") for st in ("never", "registered", "unregistered")]

WHEEL_FNS = ["TimerWheel::insert", "TimerWheel::insert_reuse", "TimerWheel::cancel", "TimerWheel::next_expired",
             "TimerWheel::next_deadline", "<TimeoutData as Ord>::cmp"]
TIMER_FNS = ["<Timer as EventSource>::process_events", "<Timer as EventSource>::register",
             "<Timer as EventSource>::reregister", "<Timer as EventSource>::unregister", "Timer::set_deadline"]
HEAP_LOOPS = [("swap_nonoverlapping", 7), ("binary_heap", 4), ("retain", 4)]
K_TIMER = {
    "first": H("k_c05_wheel_first_pop", "timer", "3 symbolic deadlines + symbolic now: next_expired is Some iff the minimum is "
               "due and then pops a minimum entry with its token; the rest keeps its order", WHEEL_FNS,
               "3 heap entries, whole-second instants in [1,64) (order types), unwind 8"),
    "cmp": H("k_c05_timeoutdata_cmp", "timer", "TimeoutData order is the reverse of deadline order", WHEEL_FNS[-1:],
             "all pairs of instants < 10^6 s", unwind_note="3"),
    "match": H("k_c01_timer_token_match", "timer", "Timer::process_events calls back iff registered, has a deadline and the "
               "event token equals the registration token; the event is the current deadline", TIMER_FNS[:1],
               "all token pairs", stub=True, unwindset=HEAP_LOOPS),
    "cycle": H("k_c05_timer_fire_cycle", "timer", "register -> Poll::poll at a symbolic clock -> deliver -> Drop | ToInstant(x): "
               "event iff deadline reached, never early, exactly once, event = deadline; Drop leaves an empty heap, "
               "ToInstant exactly one entry at x", TIMER_FNS + WHEEL_FNS + ["Poll::poll"],
               "1 timer, symbolic deadline/clock/reschedule, unwind 3 + heap loops", stub=True, unwindset=HEAP_LOOPS,
               timeout_q=900),
    "cancelrearm": H("k_c05_timer_cancel_rearm", "timer", "unregister empties the heap, nothing fires later, the deadline is "
                     "retained, register re-arms it exactly once; double unregister harmless", TIMER_FNS + WHEEL_FNS,
                     "1 timer, unwind 3 + heap loops", stub=True, unwindset=HEAP_LOOPS, timeout_q=900),
    "update": H("k_c05_timer_update", "timer", "set_deadline + reregister (no event in flight): one entry at the new deadline; "
                "fires iff the new deadline is reached, with the new deadline", TIMER_FNS + WHEEL_FNS,
                "1 timer, unwind 3 + heap loops", stub=True, unwindset=HEAP_LOOPS, timeout_q=900),
    "inflight": H("k_c05_timer_rearm_inflight", "timer", "an expired event already collected in the batch, then the timer is "
                  "re-armed by another callback before delivery: must not fire before the new deadline",
                  TIMER_FNS + WHEEL_FNS, "1 timer, unwind 3 + heap loops", stub=True, unwindset=HEAP_LOOPS, timeout_q=900, timeout_t=2400, tiers=T),
}

K_WHEEL_FAM = []

TR_FNS = ["<TransientSource<T> as EventSource>::process_events", "<TransientSource<T> as EventSource>::register",
          "<TransientSource<T> as EventSource>::reregister", "<TransientSource<T> as EventSource>::unregister",
          "TransientSource::remove", "TransientSource::replace", "TransientSource::map", "TransientSourceState::replace_state"]
K_TR = {
    "3": H("k_c18_transient_3ops", "transient", "3 symbolic protocol-following operations (event with symbolic child post-action, "
           "remove, replace, parent unregister/register, parent reregister; an owed re-registration is applied before the next "
           "change) from From<child>: no child registered twice / unregistered twice / dropped registered / sent events while "
           "unregistered; at most one child registered, none under an unregistered parent; events only from the current child; "
           "only Continue|Reregister returned", TR_FNS, "3 operations, instantiation TransientSource<Child mock>, unwind 3",
           timeout_q=900),
    "4": H("k_c18_transient_4ops", "transient", "same, 4 operations", TR_FNS, "4 operations", tiers=T, timeout_t=2400),
    "5": H("k_c18_transient_5ops", "transient", "same, 5 operations", TR_FNS, "5 operations", tiers=T, timeout_t=3600),
    "e3": H("k_c18_transient_empty_3ops", "transient", "same from Default (empty wrapper)", TR_FNS, "3 operations from empty",
            timeout_q=900),
    "noop": H("k_c18_transient_empty_noop", "transient", "process_events on an empty wrapper: Continue, no callback", TR_FNS[:1],
              "single call"),
}

K_PING = {
    "decode": H("k_c03_ping_decode", "ping", "PingSource::process_events for every 64-bit eventfd counter: 0 => error and no "
                "callback; else one drain to zero, callback iff counter >= 2 (at most one: coalescing), Remove iff LSB set; "
                "foreign token ignored", ["<PingSource as EventSource>::process_events", "ping::eventfd::drain_ping",
                "<Generic as EventSource>::process_events"], "all 2^64 counter values, unwind 2"),
    "inc": H("k_c03_ping_increments", "ping", "Ping::ping adds exactly 2, dropping the last handle adds exactly 1 (LSB), "
             "a write at the cap is swallowed", ["Ping::ping", "<FlagOnDrop as Drop>::drop", "ping::eventfd::send_ping"],
             "all 2^64 counter values"),
}
K_IO = {
    "nb": H("k_c17_set_nonblocking", "io", "set_nonblocking returns the previous O_NONBLOCK state and sets exactly what was asked; "
            "new(true) then restore(previous) gives the initial mode back", ["io::set_nonblocking"], "both initial states x both requests"),
    "iod": H("k_c17_io_dispatcher_readiness", "io", "IoDispatcher::process_events stores the event's readiness, returns Continue; "
             "readiness() returns-and-clears", ["<RefCell<IoDispatcher> as EventDispatcher>::process_events", "IoDispatcher::readiness"],
             "all 8 readiness values, all tokens"),
}
K_LOOP = {
    "it": H("k_c14_event_iterator", "loop_logic", "EventIterator over 3 events with symbolic tokens yields exactly the events of the "
            "registration's (id, generation), in order, with their readiness and full token",
            ["<EventIterator as Iterator>::next"], "3 events, all tokens, unwind 5"),
}


def P(pid, level, k, m=None, bounds="", outside="", assumptions=None):
    PROPS[pid] = dict(level=level, k=k, m=m or [], bounds=bounds, outside=outside, assumptions=assumptions or [])


P("C01", "proof",
  [K_LIST[0], K_GEN["match"], K_TIMER["match"], K_PING["decode"], K_SYS["reports"], K_SYS["factory"], K_LOOP["it"]],
  bounds="3 slots; full 64-bit token space; 1 fd",
  outside="composition over histories (DESIGN 2); user sources that ignore their token; kernel delivering a key never registered")
P("C02", "proof", [K_SYS["cvt_mode"], K_SYS["cvt_interest"], K_SYS["table"], K_SYS["reports"], K_SYS["rearm"], K_SYS["clamp"], K_SYS["selftest"]],
  bounds="1 fd, 0-1 timer, all modes/interests",
  outside="that the kernel reports level/edge/oneshot as documented; batches larger than the poller buffer")
P("C03", "proof", [K_PING["decode"], K_PING["inc"]], bounds="all 2^64 counter values",
  outside="counter saturation after 2^63 undrained pings; weak memory")
P("C05", "proof", [K_TIMER["first"], K_TIMER["cmp"], K_TIMER["match"], K_TIMER["inflight"], K_SYS["clamp"], K_SYS["selftest"]],
  bounds="3 heap entries; instants below 10^6 s",
  outside="u32 heap counter wrapping after 2^32 insertions; wall-clock behaviour of the real poller")
P("C06", "proof", K_LIST[1:] + K_LIST[:1] + K_REENT, bounds="2-3 slots, all generations",
  outside="reference-count facts (each source/callback dropped exactly once) are Rust ownership, not solver obligations; "
          "documented reference cycles")
P("C07", "proof", [K_GEN["steps"], K_GEN["match"]], bounds="3 steps, 1 fd",
  outside="user sources that keep firing when unregistered")
P("C08", "proof", K_REENT, bounds="one foreign lifecycle entry",
  outside="panics other than RefCell double borrows; user code inside register()")
P("C09", "proof", [K_SOURCES["bitor"], K_GEN["match"]], bounds="all 16 pairs")
P("C12", "proof", [K_SYS["clamp"], K_SYS["selftest"]], bounds="0-1 timer; now/deadline/timeout below 10^6 s, every nanosecond",
  outside="that the OS sleeps as long as asked; scheduling latency")
P("C13", "proof", [K_SOURCES["idle"]], bounds="both cases")
P("C14", "proof", K_LC + K_LC2 + [K_LOOP["it"]], bounds="<= 2 foreign set entries; 3 polled events",
  outside="composition over histories")
P("C15", "proof", K_LC + [K_GEN["exact"], K_GEN["steps"]], bounds="1 step from any invariant state; 3 steps for Generic",
  outside="allocation failure; batches of more than one event for the error-reporting obligations (one-event batch with the loop-exit "
          "assumption; the per-iteration obligations hold from an arbitrary loop-head state); errors raised by before_sleep")
P("C16", "proof", [K_GEN["steps"], K_GEN["exact"], K_SYS["table"]] + K_GEN_DROP, bounds="1 fd, 3 steps",
  outside="fd numbers reused by the OS after close; composition over histories")
P("C17", "proof", [K_IO["nb"], K_IO["iod"]], bounds="all flag/readiness values",
  outside="kernel socket semantics; buffer sizes")
K_TR_IND = [H("k_c18_ind_" + sh, "transient", "inductive step from ANY state of shape %s satisfying the representation invariant "
               "(child registered exactly as the state says relative to the parent): one symbolic protocol operation re-establishes "
               "it with no double register/unregister, no event from an unregistered child, no registered child dropped" % sh,
               TR_FNS, "1 operation from an arbitrary invariant state, instantiation TransientSource<Child mock>, unwind 3",
               timeout_q=900)
            for sh in ["keep", "register", "disable", "disabled", "remove", "replace", "none"]]
PROPS["C16"]["k"] = PROPS["C16"]["k"] + K_TR_IND
PROPS["C07"]["k"] = PROPS["C07"]["k"] + K_TR_IND
P("C18", "proof", K_TR_IND + [K_TR["3"], K_TR["e3"], K_TR["noop"], K_TR["4"], K_TR["5"]], bounds="3 operations (quick), 4-5 (thorough)",
  outside="fd-backed children are represented by the mock child (a double unregister is ENOENT for Generic: shown natively); "
          "more than two changes without an intervening re-registration in the k-step harnesses (the inductive family covers one "
          "operation from ANY invariant state, incl. states with a change pending)")
SIG_FNS = ["Signals::new", "Signals::add_signals", "Signals::remove_signals", "Signals::set_signals", "<Signals as Drop>::drop",
           "<Signals as EventSource>::process_events (+closure)"]
K_SIG = {
    "mask": H("k_c19_mask_bookkeeping", "signals", "Signals::new(S) then one symbolic add/remove/set with a symbolic subset, symbolic pending "
              "signals: blocked set = signalfd mask = configured set; a pending signal configured before and after is never "
              "delivered by default disposition in between; Drop unblocks", SIG_FNS[:5],
              "subsets of 3 signals, 1 operation, env/nix model, unwind 5", features=["signals"], timeout_q=900),
    "report": H("k_c19_report_each_pending_once", "signals", "process_events reports exactly the pending configured signals, each once, "
                "with its number; others untouched", SIG_FNS[5:], "subsets of 3 signals, symbolic pending set, unwind 5",
                features=["signals"], timeout_q=900),
}
P("C19", "proof", list(K_SIG.values()), bounds="3 signals, 1 operation after new()",
  outside="real signal delivery, siginfo contents other than the number, multi-threaded processes; real-time signals queueing")
PROPS["C20"]["k"] = K_TOKEN + [K_SYS["factory"], K_SYS["factory_x"]]
# round 9: the two cross-property misses left in the seeded matrix (C20-1 under C01, C20-4 under C14) are closed by
# deciding the token obligations the neighbouring property leans on under that property as well: a factory that repeats
# a sub-token makes two sub-sources share callbacks' causes (C01); same_source_as is the filter of before_handle_events'
# iterator and of the synthetic-event routing (C14).
PROPS["C01"]["k"] = PROPS["C01"]["k"] + [K_SYS["factory_x"], K_TOKEN[7]]
PROPS["C14"]["k"] = PROPS["C14"]["k"] + [K_TOKEN[7]]


# ----------------------------------------------------------------------------- engine M
from mirsym import obligations as OB   # noqa: E402


def M(name, fn, what, functions, bounds="", replay=None, tiers=Q, kind="M"):
    return dict(name=name, fn=fn, what=what, functions=functions, bounds=bounds, replay=replay or [], tiers=tiers, kind=kind)


DE_FN = ["EventLoop::dispatch_events (+ closures #0, #1)"]
DE_B = "one iteration of the events loop of dispatch_events from an ARBITRARY state of all loop-carried locals (havoc at the loop head), all paths; other loops cut after their first iteration"
DE_B1 = "dispatch_events for a batch of exactly one event (events loop unwound once, then the loop-exit assumption), all paths to the return"
M_DE = {
    "pa2": M("pa2_reset", OB.ob_pa2_reset, OB.ob_pa2_reset.__doc__, DE_FN, DE_B, replay=["d3_pending_action_error_path", "c08_reentrancy_scenarios"]),
    "pav": M("pa_value", OB.ob_pa_value, OB.ob_pa_value.__doc__, DE_FN, DE_B, replay=["d3_pending_action_error_path", "c08_reentrancy_scenarios"]),
    "disp1": M("disp1_receiver", OB.ob_disp1_receiver, OB.ob_disp1_receiver.__doc__, DE_FN, DE_B, replay=["c01_routing_scenarios", "c14_lifecycle_scenarios", "c16_removed_in_callback"]),
    "fsub": M("tokens_forget_sub", OB.ob_tokens_forget_sub, OB.ob_tokens_forget_sub.__doc__, DE_FN, DE_B, replay=["c14_lifecycle_scenarios", "d15_remove_with_failing_unregister_lifecycle"]),
    "rm3": M("rm3_removed_check", OB.ob_rm3_removed_check, OB.ob_rm3_removed_check.__doc__, DE_FN, DE_B, replay=["c16_removed_in_callback", "c14_lifecycle_scenarios", "d13_self_remove_then_error", "d15_remove_with_failing_unregister_lifecycle"]),
    "re1": M("re1_no_guards", OB.ob_re1_no_guards, OB.ob_re1_no_guards.__doc__, DE_FN, DE_B, replay=["c08_reentrancy_scenarios"]),
    "lc2": M("lc2_order", OB.ob_lc2_order, OB.ob_lc2_order.__doc__, DE_FN, DE_B + "; the before_sleep loop unrolled once more", replay=["c14_lifecycle_scenarios", "c01_routing_scenarios", "c13_idle_scenarios"]),
    "err1": M("err1", OB.ob_err1, OB.ob_err1.__doc__, DE_FN, DE_B1, replay=["d3_pending_action_error_path", "d8_error_drops_batch_remainder"]),
    "err2": M("err2_batch", OB.ob_err2_batch, OB.ob_err2_batch.__doc__, DE_FN, DE_B1, replay=["d8_error_drops_batch_remainder", "d13_self_remove_then_error"]),
}

H_FN = ["LoopHandle::remove", "LoopHandle::disable", "LoopHandle::update", "LoopHandle::enable",
        "LoopHandle::register_dispatcher", "LoopHandle::insert_idle", "io::Async::new", "io::LoopInner::kill"]
M_H = {
    "remove": M("handle_remove", OB.ob_handle_remove, OB.ob_handle_remove.__doc__, H_FN[:1], "all paths (loop-free)", replay=["c06_removal_scenarios", "c01_routing_scenarios", "c16_removed_in_callback", "c08_reentrancy_scenarios", "d15_remove_with_failing_unregister_lifecycle", "d16_remove_source_whose_drop_reenters_the_loop"]),
    "disable": M("handle_disable", OB.ob_handle_disable, OB.ob_handle_disable.__doc__, H_FN[1:2], "all paths (loop-free)", replay=["c01_routing_scenarios", "d3_pending_action_error_path", "c08_reentrancy_scenarios"]),
    "update": M("handle_update", OB.ob_handle_update, OB.ob_handle_update.__doc__, H_FN[2:3], "all paths (loop-free)", replay=["c01_routing_scenarios", "d3_pending_action_error_path", "c05_timer_scenarios", "c08_reentrancy_scenarios"]),
    "enable": M("handle_enable", OB.ob_handle_enable, OB.ob_handle_enable.__doc__, H_FN[3:4], "all paths (loop-free)", replay=["c01_routing_scenarios", "c05_timer_scenarios", "c15_failed_registration", "c08_reentrancy_scenarios"]),
    "re2": M("re2_no_double_borrow", OB.ob_re2_no_double_borrow, OB.ob_re2_no_double_borrow.__doc__, H_FN, "all paths", replay=["c08_reentrancy_scenarios"]),
    "reg1": M("register_dispatcher", OB.ob_register_dispatcher, OB.ob_register_dispatcher.__doc__, H_FN[4:5], "all paths", replay=["c15_failed_registration", "d1_failed_lifecycle_register"]),
    "idles": M("idles", OB.ob_idles, OB.ob_idles.__doc__, ["EventLoop::dispatch", "EventLoop::dispatch_idles"], "idle loop unrolled twice", replay=["c13_idle_scenarios"]),
    "insidle": M("insert_idle", OB.ob_insert_idle, OB.ob_insert_idle.__doc__,
                 ["LoopHandle::insert_idle (+ wrapper closure)", "Idle::cancel", "<Option<F> as CancellableIdle>::cancel"], "all paths", replay=["c13_idle_scenarios"]),
}

M_L = {
    "run": M("run", OB.ob_run, OB.ob_run.__doc__, ["EventLoop::run"], "2 loop iterations", replay=["p_sig_stress", "c13_idle_scenarios"]),
    "block_on": M("block_on", OB.ob_block_on, OB.ob_block_on.__doc__, ["EventLoop::block_on"], "2 loop iterations", replay=["p_sig_stress"]),
    "signal": M("signal", OB.ob_signal, OB.ob_signal.__doc__, ["LoopSignal::stop", "LoopSignal::wakeup", "Notifier::notify",
                "EventLoopWaker::wake", "EventLoopWaker::wake_by_ref"], "all paths (loop-free)", replay=["p_sig_stress"]),
}
M_CH = {
    "send": M("chan_send", OB.ob_chan_send, OB.ob_chan_send.__doc__, ["channel::Sender::send", "channel::SyncSender::try_send",
              "channel::SyncSender::send", "<PingOnDrop as Drop>::drop"], "all paths (loop-free)", replay=["p_chan_stress"]),
    "process": M("chan_process", OB.ob_chan_process, OB.ob_chan_process.__doc__, ["<Channel<T> as EventSource>::process_events (+closure)",
                 "<PingSource as EventSource>::process_events (+closures)", "<Generic as EventSource>::process_events", "drain_ping", "Ping::ping", "send_ping"],
                 "receive loop unrolled twice; the batch-limit expression for every 64-bit capacity", replay=["p_chan_stress", "c07_disable_scenarios"]),
}
M_PING = {
    "ping": M("ping", OB.ob_ping, OB.ob_ping.__doc__, ["Ping::ping", "<FlagOnDrop as Drop>::drop", "send_ping", "drain_ping",
              "<PingSource as EventSource>::process_events (+closures)", "<Generic as EventSource>::process_events"], "all paths; every 64-bit counter value", replay=["p_ping_stress"]),
}

M_EX = {
    "process": M("exec_process", OB.ob_exec_process, OB.ob_exec_process.__doc__, ["<Executor<T> as EventSource>::process_events (+closure)"],
                 "dequeue loop unrolled twice", replay=["p_exec_stress"]),
    "send": M("exec_send", OB.ob_exec_send, OB.ob_exec_send.__doc__, ["futures::Sender::send"], "all paths", replay=["p_exec_stress"]),
    "drop": M("exec_drop", OB.ob_exec_drop, OB.ob_exec_drop.__doc__, ["<Executor<T> as Drop>::drop (+closure)", "Scheduler::schedule", "<StoreOnDrop as Drop>::drop"], "loops unrolled twice", replay=["p_exec_stress", "c10_stream_scenarios"]),
    "stream": M("stream", OB.ob_stream, OB.ob_stream.__doc__, ["<StreamSource<S> as EventSource>::process_events (+closure)"], "poll loop unrolled twice", replay=["c10_stream_scenarios"]),
}

M_IO = {
    "new": M("async_new", OB.ob_async_new, OB.ob_async_new.__doc__, ["io::Async::new"], "all paths", replay=["d5_async_adapter_registration", "c17_async_io", "c15_failed_registration"]),
    "drop": M("async_drop", OB.ob_async_drop, OB.ob_async_drop.__doc__, ["<Async as Drop>::drop", "<LoopInner as IoLoopInner>::kill", "Async::into_inner"],
              "all paths", replay=["d5_async_adapter_registration", "c17_async_io", "c15_failed_registration"]),
    "io": M("async_io", OB.ob_async_io, OB.ob_async_io.__doc__, ["<Readable as Future>::poll", "<Writable as Future>::poll", "Async::poll_read",
            "Async::poll_read_vectored", "Async::poll_write", "Async::poll_write_vectored", "Async::poll_flush", "Async::register_waker", "<RefCell<IoDispatcher> as EventDispatcher>::process_events"], "all paths", replay=["c17_async_io"]),
}

M_TM = {
    "wheel": M("wheel", OB.ob_wheel, OB.ob_wheel.__doc__, ["TimerWheel::next_expired", "TimerWheel::cancel (+closures)", "TimerWheel::insert",
               "TimerWheel::insert_reuse"], "all paths (loop-free; std BinaryHeap calls are events)", replay=["c05_timer_scenarios"]),
    "timer": M("timer", OB.ob_timer, OB.ob_timer.__doc__, ["<Timer as EventSource>::register", "::unregister", "::reregister", "::process_events"],
               "all paths (loop-free)", replay=["c05_timer_scenarios", "c01_routing_scenarios"]),
}
M_POLL = M("poll", OB.ob_poll, OB.ob_poll.__doc__, ["sys::Poll::poll"], "timer drain loop unrolled twice", replay=["c01_routing_scenarios", "c05_timer_scenarios", "p_sig_stress"])
M_DELEG = M("delegation", OB.ob_delegation, OB.ob_delegation.__doc__, ["PingSource/Channel/Executor/StreamSource/Signals ::register/reregister/unregister"],
            "all paths (loop-free)", replay=["c01_routing_scenarios", "p_chan_stress", "p_ping_stress"])
M_TOK = M("token", OB.ob_token, OB.ob_token.__doc__, TOKEN_FNS, "full 64-bit key space (bit-vector validity queries, no unrolling)",
          replay=["c01_routing_scenarios"])
M_SLOTS = M("slots_never_deallocated", OB.ob_slots_never_deallocated, OB.ob_slots_never_deallocated.__doc__,
            ["every function body of the crate (call-site scan)", "SourceList::vacant_entry"], "all call sites of the MIR dump; vacant_entry: all paths, scan loop unrolled twice",
            replay=["c15_failed_registration", "c06_removal_scenarios"])
M_TM["stale"] = M("timer_stale", OB.ob_timer_stale, OB.ob_timer_stale.__doc__, ["<Timer as EventSource>::process_events"], "all paths",
                   replay=["d4_timer_rearm_in_flight"])
from mirsym import pqueries as PQ   # noqa: E402

P_Q = {
    "ping": M("p_ping", PQ.p_ping, PQ.p_ping.__doc__, ["Ping::ping", "<FlagOnDrop as Drop>::drop", "<PingSource as EventSource>::process_events"],
              "2 pinger threads (3 pings + close marker), loop <= 3 rounds (4 thorough), every interleaving of <= 10 atomic operations",
              replay=["p_ping_stress"], kind="P"),
    "chan": M("p_chan", PQ.p_chan, PQ.p_chan.__doc__, ["channel::Sender::send", "channel::SyncSender::try_send", "channel::SyncSender::send",
              "<PingOnDrop as Drop>::drop", "<Channel<T> as EventSource>::process_events", "struct Sender / SyncSender (field order)"],
              "1 sender thread, 2 messages + drop, capacities {unbounded, 0, 1}, loop 3 rounds, batch <= 3, every interleaving",
              replay=["p_chan_stress", "d11_sync_channel_zero_blocking_send"], kind="P"),
    "exec": M("p_exec", PQ.p_exec, PQ.p_exec.__doc__, ["futures::Sender::send", "<Executor<T> as EventSource>::process_events"],
              "2 waker threads, loop 3 rounds x 2 dequeues, every interleaving", replay=["p_exec_stress"], kind="P"),
    "sig": M("p_sig", PQ.p_sig, PQ.p_sig.__doc__, ["EventLoop::run", "EventLoop::block_on", "EventLoopWaker::wake/wake_by_ref", "LoopSignal::stop/wakeup"],
             "2 wakes / stop+wakeup from one remote thread, 3 loop iterations, every interleaving", replay=["p_sig_stress"], kind="P"),
}


def addm(pid, obs):
    PROPS.setdefault(pid, dict(level="proof", k=[], m=[], bounds="", outside="", assumptions=[]))
    PROPS[pid]["m"] = PROPS[pid].get("m", []) + obs


addm("C01", [M_DE["disp1"], M_DE["fsub"], M_DE["lc2"], M_TOK, M_TM["timer"]])
addm("C20", [M_TOK, M_SLOTS])
addm("C02", [M_DE["disp1"], M_CH["process"], M_EX["process"], M_POLL, M_IO["io"], M_IO["new"]])
addm("C03", [M_PING["ping"], P_Q["ping"], M_DELEG])   # round 9 (seed C03-5): the wake-up only exists if register() really registers
P("C04", "model_checking", [], [M_CH["send"], M_CH["process"], M_PING["ping"], P_Q["chan"]],
  bounds="engine M: all paths, receive loop unrolled twice, batch limit for every 64-bit capacity; engine P: see obligation bounds",
  outside="std::sync::mpsc itself (linearizable FIFO, disconnect when the last sender is dropped; try_recv on a zero-capacity "
          "channel pairs with a blocked sender); weak memory; more than one sender thread in the interleaving query")
addm("C05", [M_TM["wheel"], M_TM["timer"], M_TM["stale"], M_POLL])
addm("C06", [M_H["remove"], M_H["disable"], M_H["update"], M_H["enable"], M_DE["rm3"], M_DE["disp1"], M_TOK, M_SLOTS])
addm("C07", [M_H["disable"], M_H["enable"], M_DE["pa2"], M_DE["fsub"], M_DE["rm3"], M_TM["timer"], M_DELEG, M_CH["process"], M_PING["ping"]])
addm("C08", [M_DE["re1"], M_H["re2"], M_EX["process"], M_DE["pa2"], M_H["idles"], M_DE["rm3"], M_H["remove"], M_DE["pav"], M_H["update"], M_H["disable"], M_H["enable"]])
addm("C09", [M_DE["pa2"], M_DE["pav"], M_H["disable"], M_H["update"], M_DE["fsub"]])
P("C10", "model_checking", [], [M_EX["process"], M_EX["send"], M_EX["drop"], M_EX["stream"], P_Q["exec"]],
  bounds="engine M: dequeue/poll loops unrolled twice; engine P: see obligation bounds",
  outside="async_task internals (a wake of a non-running, non-scheduled task calls the schedule function once; futures are "
          "polled only inside Runnable::run, which only the loop thread calls); weak memory")
P("C11", "model_checking", [], [M_L["run"], M_L["block_on"], M_L["signal"], M_POLL, P_Q["sig"]],
  bounds="engine M: 2 loop iterations; engine P: 3 iterations, 2 remote operations",
  outside="the stickiness of Poller::notify itself (polling's documented contract, modelled); a stop() racing run's initial reset "
          "(excluded by the property text)")
addm("C12", [M_DE["lc2"], M_TM["wheel"], M_TM["timer"], M_POLL, M_CH["process"]])
addm("C13", [M_H["idles"], M_H["insidle"], M_L["run"]])
addm("C14", [M_DE["lc2"], M_DE["fsub"], M_DE["rm3"]])
addm("C15", [M_H["reg1"], M_H["enable"], M_H["update"], M_H["disable"], M_IO["new"], M_DE["err1"], M_DE["err2"], M_DE["pa2"], M_SLOTS, M_DE["fsub"]])
addm("C16", [M_IO["drop"], M_IO["new"], M_DE["rm3"], M_DELEG, M_H["remove"]])
addm("C17", [M_IO["io"], M_IO["new"], M_IO["drop"]])
for _p in ("C03",):
    PROPS[_p]["level"] = "model_checking"

PROPS["DEV"] = dict(level="proof", k=list(K_SIG.values()), m=[])
