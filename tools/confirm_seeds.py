#!/usr/bin/env python3
"""Confirms every seeded change in a scratch worktree of /repo (outside /repo and /verif):
the change applies, the crate builds, the existing suite still passes with it, the demonstration
passes WITHOUT the change and fails WITH it.  Writes seeded/<id>/confirm.json."""
import json, os, re, subprocess, sys, glob
WT = "/tmp/wt_confirm"
FEAT = "block_on,executor,signals,stream,futures-io"
def sh(cmd, cwd=WT, timeout=900):
    p = subprocess.run(cmd, cwd=cwd, shell=True, capture_output=True, text=True, timeout=timeout)
    return p.returncode, p.stdout + p.stderr
if not os.path.exists(WT):
    subprocess.run("git -C /repo worktree add -q --detach %s HEAD" % WT, shell=True, check=True)
only = sys.argv[1:]
for d in sorted(glob.glob("/verif/seeded/*/")):
    sid = os.path.basename(d.rstrip("/"))
    if only and sid not in only:
        continue
    sh("git checkout -q --detach main && git checkout -q -- . && git clean -qfd")
    res = {"seed": sid, "base": sh("git rev-parse --short HEAD")[1].strip()}
    subprocess.run("cp %s/seeded_demo.rs %s/tests/seeded_demo.rs" % (d, WT), shell=True, check=True)
    ct = open(d + "cargo_toml.diff").read() if os.path.exists(d + "cargo_toml.diff") else ""
    m = re.search(r"\+required-features = (\[.*\])", ct)
    nh = re.search(r"\+harness = false", ct)
    with open(WT + "/Cargo.toml", "a") as f:
        f.write('\n[[test]]\nname = "seeded_demo"\n' + ("harness = false\n" if nh else "") + ("required-features = %s\n" % m.group(1) if m else ""))
    rc, out = sh("cargo test -j 6 --offline --features %s --test seeded_demo 2>&1 | tail -30" % FEAT)
    res["demo_without_change"] = "pass" if (re.search(r"test result: ok", out) or (nh and "error: test failed" not in out and "Running" in out)) and not re.search(r"test result: FAILED", out) else "FAIL"
    rc, out = sh("git apply %s/patch.diff" % d)
    res["applies"] = rc == 0
    if rc == 0:
        rc, out = sh("cargo build -j 6 --offline --features %s 2>&1 | tail -3" % FEAT)
        res["builds"] = "Finished" in out
        rc, out = sh("cargo test -j 6 --workspace --offline --no-fail-fast 2>&1 | grep -E '^test result|^test .*FAILED|Running' ")
        libs = re.findall(r"test result: (\w+)\. (\d+) passed; (\d+) failed", out)
        res["existing_suite"] = {"lib_passed": max([int(a[1]) for a in libs] or [0]),
                                 "failed_tests": sorted(set(re.findall(r"^test (\S+) \.\.\. FAILED", out, flags=re.M)))}
        rc, out2 = sh("cargo test -j 6 --offline --features %s --lib 2>&1 | grep -E '^test result'" % FEAT)
        res["lib_all_features"] = out2.strip()[:80]
        rc, out3 = sh("cargo test -j 6 --offline --features %s --test seeded_demo 2>&1 | grep -E '^test |test result|panicked|error: test failed' | head -12" % FEAT)
        res["demo_with_change"] = "FAIL" if re.search(r"test result: FAILED|panicked|FAILED|error: test failed", out3) else "pass"
        res["demo_output"] = out3[:700]
    json.dump(res, open(d + "confirm.json", "w"), indent=1)
    print(sid, {k: v for k, v in res.items() if k not in ("demo_output",)})
sh("git checkout -q -- . && git clean -qfd")
