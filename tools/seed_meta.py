#!/usr/bin/env python3
"""Assembles seeded/<id>/meta.json from confirm.json (my own confirmation run), SEEDED.md (the author's
description) and the latest trial results of tools/try_seed.sh (/var/tmp/seedrun*.txt)."""
import glob, json, os, re
trials = {}
# trial logs are kept in seeded/trials/<mtime>_<name>.txt (copied there from /var/tmp): seedrun* = tools/try_seed.sh on
# /repo itself, devseeds* = tools/dev_seed.sh on an exported copy (development-time trials)
HERE = os.path.dirname(os.path.dirname(os.path.abspath(__file__)))
for f in sorted(glob.glob(os.path.join(HERE, "seeded", "trials", "*.txt"))):
    dev = "devseeds" in os.path.basename(f)
    for l in open(f):
        m = re.match(r"(\S+) (C\d\d) rc=(-?\d+) wall=(\d+)s ::\s*(.*)$", l.strip())
        if m:
            sid, prop, rc, wall, txt = m.groups()
            fails = sorted(set(re.findall(r"failing: ([^;]*)", txt)))
            hist = trials.get(sid, {}).get(prop, {}).get("history", [])
            trials.setdefault(sid, {})[prop] = {"history": hist + [{0: "missed", 1: "VIOLATION", 2: "inconclusive"}.get(int(rc), rc) + (" (dev)" if dev else "")],
                                                 "how": "tools/dev_seed.sh (exported copy of /repo HEAD, VERIF_REPO)" if dev else "tools/try_seed.sh (git -C /repo apply; ./check; git -C /repo checkout -- .)","cmd": "./check %s --tier quick" % prop, "exit": int(rc), "wall_s": int(wall),
                                                 "verdict": {0: "MISSED (exit 0)", 1: "VIOLATION reported", 2: "inconclusive"}.get(int(rc), rc),
                                                 "failing_obligations": [x.strip() for x in ", ".join(fails).split(", ") if x.strip()]}
NEEDS = {}
for d in sorted(glob.glob("/verif/seeded/*/")):
    sid = os.path.basename(d.rstrip("/"))
    if not os.path.exists(d + "patch.diff"):
        continue
    conf = json.load(open(d + "confirm.json")) if os.path.exists(d + "confirm.json") else {}
    md = open(d + "SEEDED.md").read() if os.path.exists(d + "SEEDED.md") else ""
    files = sorted(set(re.findall(r"^\+\+\+ b/(\S+)", open(d + "patch.diff").read(), flags=re.M)))
    meta = {
        "seed": sid,
        "breaks_property": sid.split("-")[0],
        "author": "independent sub-agent given only the property text and its own scratch worktree (nothing from /verif)",
        "files_changed": files,
        "what_it_needs_to_manifest": (re.search(r"(?is)(what (it|is) need(s|ed)[^\n]*\n)(.*?)(\n#|\n\*\*[A-Z(]|\Z)", md).group(4).strip()[:1500]
                                       if re.search(r"(?is)what (it|is) need(s|ed)", md) else "see SEEDED.md"),
        "confirmed_by_me": conf,
        "what_i_ran": ["tools/confirm_seeds.py %s   (scratch worktree /tmp/wt_confirm of /repo HEAD: patch applies, builds, existing suite passes "
                       "except the demonstration, demonstration passes without / fails with the change)" % sid,
                       "tools/try_seed.sh %s <props>   (git -C /repo apply patch.diff; ./check <prop>; git -C /repo checkout -- .)" % sid],
        "checks": trials.get(sid, {}),
    }
    if sid == "C18-2":
        meta["note"] = "patch ported by me onto the tree after the D12 fix (replace() is now a match; same semantic change: the Disable state takes the Disabled shortcut)"
    if sid in ("C08-1",):
        meta["note"] = "same source change as C09-1 (two agents converged on it); patch rebased onto the tree after the D3 fix"
    if sid in ("C09-1",):
        meta["note"] = "patch rebased onto the tree after the D3 fix (same semantic change: the reset moved inside the `if Continue` branch)"
    if sid == "C07-1":
        meta["note"] = "same source change as C14-1 (two agents converged on it)"
    json.dump(meta, open(d + "meta.json", "w"), indent=1)
    print(sid, {p: t["verdict"] for p, t in meta["checks"].items()})
