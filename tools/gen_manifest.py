#!/usr/bin/env python3
"""Regenerates /verif/MANIFEST.json from vlib/registry.py (what is checked) and
the texts below (what is claimed).  Run after changing the registry."""
import json
import os
import sys

sys.path.insert(0, os.path.dirname(os.path.dirname(os.path.abspath(__file__))))
from vlib import registry  # noqa: E402

VERIF = os.path.dirname(os.path.dirname(os.path.abspath(__file__)))

TEXT = {
    # property id -> (level text, level note, technique)
}
DEFAULT_NOTE = ("Bounded: every result is 'for all values inside the stated bounds' (evidence.coverage.bounds_text). "
                "Trusted: rustc MIR -> Kani goto translation and CBMC (engine K); the textual MIR of nightly rustc as parsed "
                "by mirsym and z3 (engines M, P); the environment model crates /verif/env/* (documented contracts of "
                "polling/rustix/nix, empty tracing); the informal composition step from unit/skeleton/protocol obligations "
                "to all histories (DESIGN.md section 2).")


def engines_of(spec):
    e = []
    if spec.get("k"):
        e.append("K")
    kinds = {o.get("kind", "M") for o in spec.get("m", [])}
    if "M" in kinds:
        e.append("M")
    if "P" in kinds:
        e.append("P")
    return e


def technique(spec):
    parts = []
    es = engines_of(spec)
    if "K" in es:
        parts.append("Kani/CBMC bounded model checking of the compiled units over symbolic inputs and arbitrary "
                     "invariant pre-states")
    if "M" in es:
        parts.append("symbolic execution of the nightly MIR into path summaries with z3-decided obligations")
    if "P" in es:
        parts.append("z3 bounded interleaving check over MIR-extracted atomic event sequences")
    return "; ".join(parts)


def main():
    props = [json.loads(l) for l in open(os.path.join(VERIF, "properties.jsonl"))]
    na_reasons = json.load(open(os.path.join(VERIF, "tools", "not_applicable.json")))
    checks = []
    claimed = []
    for p in props:
        pid = p["id"]
        spec = registry.PROPS.get(pid)
        if not spec or pid in na_reasons:
            continue
        claimed.append(pid)
        es = engines_of(spec)
        nk = len([h for h in spec.get("k", []) if "quick" in h["tiers"]])
        nm = len([o for o in spec.get("m", []) if "quick" in o.get("tiers", ("quick",))])
        cat = spec.get("level", "proof")
        text = ("Solver-decided obligations over the real code, each for ALL values inside its stated bound "
                "(no sampling): %d Kani harnesses%s in the quick tier. %s The step from these obligations to the "
                "property over all histories/schedules is the informal composition argument of DESIGN.md section 2; "
                "what lies outside is listed in evidence.coverage.outside_claim."
                % (nk, (" and %d MIR/SMT obligations" % nm) if nm else "",
                   spec.get("claim", "")))
        checks.append({
            "property_id": pid,
            "quick_cmd": "./check %s --tier quick" % pid,
            "thorough_cmd": "./check %s --tier thorough" % pid,
            "evidence_file": "/verif/evidence/%s.json" % pid,
            "replay_cmd_template": "./check %s --only {path}" % pid,
            "engine": "+".join(es),
            "level_claimed": {"category": cat, "text": text, "design_ref": "DESIGN.md section 3, " + pid},
            "level_note": DEFAULT_NOTE + (" " + spec.get("outside", "") if spec.get("outside") else ""),
            "technique": technique(spec),
        })
    man = {
        "version": 1,
        "setup_cmd": "true",
        "hooks": {
            "guard": "none (cfg(kani) exists only in scratch copies)",
            "enable": "no hooks are committed in /repo: every check copies /repo's working tree to a scratch directory, "
                      "appends `#[cfg(kani)] #[path=...] mod verif_inner;` lines and [patch.crates-io] entries for the "
                      "environment model crates there, and dumps MIR from a second scratch copy",
            "baseline_off_cmd": "cd /repo && cargo test --workspace --no-fail-fast --offline",
            "source_commits": [],
            "add_only": True,
        },
        "engines": [
            {"name": "K", "path": "/verif/vlib/kani.py", "serves_properties": [c for c in claimed if "K" in engines_of(registry.PROPS[c])],
             "kind_free_text": "Kani 0.68 / CBMC 6.11 over the compiled units, harnesses in /verif/kani/inner, environment "
                               "model crates in /verif/env"},
            {"name": "M", "path": "/verif/mirsym", "serves_properties": [c for c in claimed if "M" in engines_of(registry.PROPS[c])],
             "kind_free_text": "own symbolic executor over rustc's textual MIR producing path summaries; obligations "
                               "discharged with z3"},
            {"name": "P", "path": "/verif/mirsym/protocol.py", "serves_properties": [c for c in claimed if "P" in engines_of(registry.PROPS[c])],
             "kind_free_text": "bounded interleaving of MIR-extracted atomic event sequences in z3"},
        ],
        "checks": checks,
        "not_applicable": [{"property_id": p["id"], "reason": na_reasons.get(p["id"], "no check registered yet")}
                           for p in props if p["id"] not in claimed],
        "notes": "See DESIGN.md. Genuine defects found and repaired are listed in known_findings.json (status fixed); "
                 "recorded ones (status known) print KNOWN-FINDING lines.",
    }
    with open(os.path.join(VERIF, "MANIFEST.json"), "w") as f:
        json.dump(man, f, indent=1)
    print("claimed:", " ".join(claimed))
    print("not applicable:", " ".join(x["property_id"] for x in man["not_applicable"]))


if __name__ == "__main__":
    main()
