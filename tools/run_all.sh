#!/bin/bash
# runs every claimed check's quick (or $1) tier sequentially; prints rc and wall time per property
tier=${1:-quick}
cd ${VERIF_DIR:-/verif}
for p in $(python3 -c "import json;print(' '.join(c['property_id'] for c in json.load(open('MANIFEST.json'))['checks']))"); do
  s=$(date +%s)
  ./check $p --tier $tier > /var/tmp/runall_$p.log 2>&1
  rc=$?
  e=$(date +%s)
  echo "$p rc=$rc wall=$((e-s))s $(grep -c 'holds' /var/tmp/runall_$p.log) holds $(grep -E 'VIOLATION|KNOWN-FINDING|INCONCLUSIVE' /var/tmp/runall_$p.log | head -3 | tr '\n' ' ')"
done
python3-vt - <<'PY'
import json,jsonschema,glob
sch=json.load(open('/root/.vp/EVIDENCE.schema.json'))
for f in sorted(glob.glob('evidence/*.json')):
    try:
        jsonschema.validate(json.load(open(f)),sch); print('evidence ok', f)
    except Exception as e: print('EVIDENCE INVALID', f, str(e)[:200])
PY
