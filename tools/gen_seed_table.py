#!/usr/bin/env python3
"""prints the seeded-change matrix of DESIGN.md II.7 from seeded/*/meta.json"""
import glob, json, os
DESC = {
 "C01-1": "Generic::process_events accepts any token while unregistered (`token == None`)",
 "C01-2": "Timer::unregister cancels but keeps its Registration (stale token still matches)",
 "C02-1": "Poll::poll skips the poller wait when a timer is already due (ready fds starve)",
 "C03-1": "ping callback followed by a second drain that swallows pings sent during the callback",
 "C04-1": "channel batch limit = capacity instead of capacity+1 (no Empty seen, no self-ping for a blocked sender)",
 "C04-2": "SyncSender::send no longer pings after its blocking send",
 "C05-1": "TimerWheel::cancel by (counter, deadline) with a stale deadline after a re-arm",
 "C05-2": "timer wheel consulted only when the wait timed out (a due timer is starved by busy I/O)",
 "C06-1": "version increment wraps modulo MASK_VERSION instead of 2^16 (generation repeats one early / skips)",
 "C06-2": "remove() from inside the source's own callback defers as PostAction::Remove (overwritable later)",
 "C07-1": "dispatch looks the slot up with the full token incl. sub-id (= C14-1)",
 "C08-1": "pending action reset only when the source returned Continue (= C09-1)",
 "C08-2": "removed-source check treats a reused/absent slot as 'not removed' (skips the unregister)",
 "C09-1": "pending action reset only when the source returned Continue",
 "C09-2": "a deferred disable/update also overrides an explicit Reregister",
 "C10-1": "executor clears `notified` after draining instead of before the first dequeue",
 "C10-2": "schedule(): `notified` swapped before the enqueue",
 "C11-1": "block_on: future_ready load + later store instead of swap (wake between them lost)",
 "C11-2": "block_on: stop flag checked at the loop top without the final poll of the future",
 "C12-1": "Timer::unregister cancels only if the deadline is still in the future (stale wheel entry spins the loop)",
 "C13-1": "dispatch_idles puts the drained Vec back, dropping idles inserted by idle callbacks",
 "C13-2": "dispatch() runs the idle callbacks even when the event dispatch returned an error",
 "C14-1": "dispatch looks the slot up with the full token incl. sub-id",
 "C14-2": "removed-source check via pattern match: stale/reused slot not treated as removed",
 "C15-1": "Async::new marks is_registered before the register call can fail",
 "C16-1": "removed-source check: lookup error no longer counts as removed",
 "C16-2": "Generic::unregister keeps its poller back-reference (drop deletes a foreign registration of a reused fd)",
 "C17-1": "Async drop restores the blocking mode only when the fd is still owned (not after into_inner)",
 "C18-1": "TransientSource::unregister in state Remove unregisters the child a second time",
 "C18-2": "replace() takes the Disabled shortcut also in state Disable (registered child dropped without unregister)",
 "C19-1": "set_signals returns early when nothing is removed, before the bookkeeping is completed",
 "C02-2": "channel batch limit = capacity (same edit as C04-1; demonstrated on sync_channel(0): Closed never delivered)",
 "C03-2": "sender-side coalescing flag in Ping::ping, cleared after the callback instead of right after the drain",
 "C06-3": "LoopHandle::remove puts the dispatcher back into its slot when unregister fails (e.g. after disable)",
 "C07-2": "Generic::reregister stores the new token before the fallible poller call",
 "C10-3": "StreamSource polls at most 1024 items per dispatch and does not wake itself up for the rest",
 "C12-2": "Timer::reregister returns early when the new deadline is unrepresentable, leaving the old wheel entry",
 "C15-2": "failed insertion pops its (last) slot again: the generation counter is lost and a dead token comes back",
 "C17-2": "Async::register_waker skips the poller re-arm when a waker is already stored (direction may differ)",
 "C19-2": "remove_signals updates a local copy of the mask and never stores it back",
 "C20-2": "key encoder reduces the generation modulo MASK_VERSION (0xFFFF collides with 0)",
 "C01-3": "a synthetic before_sleep event is queued with the registration token (sub-id 0) instead of the returned sub-token",
 "C04-3": "the channel's self-wake-up on an exhausted batch is kept only for the unbounded channel",
 "C05-3": "TimerWheel::cancel resets the arming counter to 0 when the heap becomes empty (counter reuse)",
 "C08-3": "dispatch_idles puts the drained Vec back (same edit as C13-1): insert_idle from an idle callback is lost",
 "C09-3": "an explicit return and a deferred request are combined with | (Remove|Disable = Reregister)",
 "C11-3": "Poll::poll waits again when the wait returned early without events before the timer deadline (swallows wake-ups)",
 "C13-3": "insert_idle reuses the list position of a cancelled idle (insertion order broken)",
 "C14-3": "EventIterator filters by full token equality with the registration token (drops events of sub-ids > 0)",
 "C16-3": "TransientSource::unregister treats the pending Disable state as not registered (fd stays in the poller)",
 "C18-3": "remove() while a replacement is pending turns the never registered replacement into Remove and drops the old child",
 "C02-3": "Async::register_waker skips the poller re-arm when a waker is stored (same edit as C17-2)",
 "C03-3": "the close increment is sent from Drop for Ping behind `Arc::strong_count == 1` (check-then-act race between the last two handles)",
 "C06-4": "dispatch_events caches the dispatcher of the previous event: a source that removed itself gets the next event of the batch",
 "C07-3": "TransientSource::reregister registers a Disabled child again (a child that asked for Disable wakes up on update)",
 "C10-4": "Executor::drop drops the wakers of pending futures instead of waking them (a future with a waker clone elsewhere outlives it)",
 "C12-3": "Poll::poll clamps the wait against the clock reading taken at the start of dispatch_events (stale by the before_sleep hooks)",
 "C15-3": "a failing enable() rolls back with unregister() (deletes a registration that belongs to another source)",
 "C17-3": "IoDispatcher::process_events does not wake the task when the readiness equals the stored one",
 "C19-3": "add_signals skips the mask update unless the LAST listed signal is new (`=` instead of `|=`)",
 "C20-3": "increment_sub_id rebuilds the token from TokenInner::new(id): the generation is dropped for sub-ids >= 1",
 "C20-1": "TokenFactory::token stops advancing at the last sub-id (hands the same token out again)",
}
print("| seed | change (source files) | quick checks run with it applied → verdict, failing obligations | trial history |")
print("|---|---|---|---|")
for f in sorted(glob.glob(os.path.join(os.path.dirname(os.path.dirname(os.path.abspath(__file__))), "seeded", "*", "meta.json"))):
    m = json.load(open(f))
    cells = []
    hist = []
    for p, t in sorted(m.get("checks", {}).items()):
        obs = sorted({o.split(":")[1] if o.count(":") >= 1 else o for o in t.get("failing_obligations", [])})
        cells.append("%s: %s%s" % (p, {0: "**missed**", 1: "VIOLATION", 2: "inconclusive"}.get(t["exit"], t["exit"]),
                                  (" (" + ", ".join(obs[:3]) + (", …" if len(obs) > 3 else "") + ")") if obs else ""))
        h = t.get("history", [])
        if len(h) > 1 and len(set(h)) > 1:
            hist.append("%s: %s" % (p, " → ".join(h)))
    print("| %s | %s (%s) | %s | %s |" % (m["seed"], DESC.get(m["seed"], ""), ", ".join(x.replace("src/", "") for x in m["files_changed"]),
                                        "; ".join(cells) or "same change as the seed named in the description", "; ".join(hist) or "–"))
