#!/usr/bin/env python3-vt
"""prints the 'what decides which property' table of DESIGN.md Part II from the registry"""
import sys, os
sys.path.insert(0, os.path.dirname(os.path.dirname(os.path.abspath(__file__))))
from vlib import registry
print("| property | engine K (Kani harnesses; q = quick tier) | engine M obligations | engine P queries |")
print("|---|---|---|---|")
for pid in sorted(p for p in registry.PROPS if p != "DEV"):
    sp = registry.PROPS[pid]
    ks = sp.get("k", [])
    kq = [h["name"] for h in ks if "quick" in h["tiers"]]
    kt = [h["name"] for h in ks if "quick" not in h["tiers"]]
    def short(names):
        # collapse families
        import re, collections
        fam = collections.OrderedDict()
        for n in names:
            m = re.match(r"(k_c\d\d_(?:lc2?|wheel_cancel|wheel_order|list_vacant|generic_(?:drop|unwrap)|reentrant_defers|ind))_", n)
            key = (m.group(1) + "_*") if m else n
            fam[key] = fam.get(key, 0) + 1
        return ", ".join(("%s ×%d" % (k, v)) if v > 1 else k for k, v in fam.items())
    ms = [o["name"] for o in sp.get("m", []) if o.get("kind", "M") == "M"]
    ps = [o["name"] for o in sp.get("m", []) if o.get("kind") == "P"]
    print("| %s | q: %s%s | %s | %s |" % (pid, short(kq) or "–", ("; thorough also: " + short(kt)) if kt else "", ", ".join(ms) or "–", ", ".join(ps) or "–"))
