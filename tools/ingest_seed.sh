#!/bin/bash
# tools/ingest_seed.sh <worktree> <seed-id>: turns a sub-agent's scratch worktree into seeded/<id>/ (patch.diff over src,
# the demonstration, the author's notes, a Cargo.toml diff when the demo needs features), then removes the worktree.
set -eu
wt=$1; sid=$2; d=/verif/seeded/$sid
mkdir -p $d
git -C $wt diff -- src > $d/patch.diff
[ -s $d/patch.diff ] || { echo "empty patch"; exit 2; }
cp $wt/tests/seeded_demo.rs $d/seeded_demo.rs
[ -f $wt/SEED_NOTES.md ] && cp $wt/SEED_NOTES.md $d/SEEDED.md
git -C $wt diff -- Cargo.toml > $d/cargo_toml.diff; [ -s $d/cargo_toml.diff ] || rm -f $d/cargo_toml.diff
git -C /repo worktree remove --force $wt
echo "ingested $sid: $(grep -c '^[+-][^+-]' $d/patch.diff) changed lines in $(grep -c '^+++ ' $d/patch.diff) file(s)"
