#!/bin/bash
# tools/dev_seed.sh <seed> <prop> [<prop>...]: development-time trial that does NOT touch /repo: the seeded change is applied to
# an exported copy of /repo's HEAD, the checks run from a snapshot of /verif (so /verif/evidence is not overwritten) with
# VERIF_REPO pointing at the copy. The recorded trials in seeded/*/meta.json are made with tools/try_seed.sh on /repo itself.
set -u
seed=$1; shift
t=/var/tmp/seedtree.$seed; v=/var/tmp/verif_dev.$seed
rm -rf $t $v; mkdir -p $t
git -C /repo archive HEAD | tar -x -C $t
(cd $t && patch -s -p1 < /verif/seeded/$seed/patch.diff) || { echo "patch does not apply"; exit 2; }
rsync -a --exclude .git --exclude evidence /verif/ $v/
for p in "$@"; do
  s=$(date +%s)
  (cd $v && VERIF_REPO=$t ./check $p --tier quick > /var/tmp/devseed_${seed}_$p.log 2>&1); rc=$?
  echo "$seed $p rc=$rc wall=$(( $(date +%s)-s ))s :: $(grep -E '^VIOLATION|KNOWN-FINDING' /var/tmp/devseed_${seed}_$p.log | cut -c1-150 | tr '\n' ';') $(grep -E 'failing:|INCONCLUSIVE|inconclusive' /var/tmp/devseed_${seed}_$p.log | cut -c1-300 | tr '\n' ';')"
done
rm -rf $t $v
