#!/bin/bash
# tools/try_seed.sh <seed-dir-name> <prop> [<prop>...] : applies the seeded change to /repo, runs the checks, undoes it
set -u
seed=$1; shift
cd /repo || exit 2
if [ -n "$(git status --porcelain -- src Cargo.toml)" ]; then echo "/repo not clean"; exit 2; fi
git apply ${VERIF_DIR:-/verif}/seeded/$seed/patch.diff || { echo "patch does not apply"; exit 2; }
trap 'git -C /repo checkout -- . ' EXIT
cd ${VERIF_DIR:-/verif}
for p in "$@"; do
  s=$(date +%s)
  # the evidence of a run on a SEEDED tree must never replace the evidence of the unchanged tree
  [ -f evidence/$p.json ] && cp evidence/$p.json /var/tmp/evidence_keep_$p.json
  ./check $p --tier quick > /var/tmp/seed_${seed}_$p.log 2>&1
  rc=$?
  [ -f /var/tmp/evidence_keep_$p.json ] && mv /var/tmp/evidence_keep_$p.json evidence/$p.json
  e=$(date +%s)
  echo "$seed $p rc=$rc wall=$((e-s))s :: $(grep -E '^VIOLATION|KNOWN-FINDING' /var/tmp/seed_${seed}_$p.log | cut -c1-150 | tr '\n' ';') $(grep -E 'failing:|INCONCLUSIVE' /var/tmp/seed_${seed}_$p.log | cut -c1-250 | tr '\n' ';')"
done
