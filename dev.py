#!/usr/bin/env python3-vt
"""dev helper: ./dev.py <registry-key-or-harness-name> [timeout]  -- runs one harness in a persistent scratch copy"""
import sys, os, re, glob, shutil, time
sys.path.insert(0, '/verif')
os.environ['VERIF_KEEP'] = '1'
from vlib import kani, common, registry
name = sys.argv[1]
to = int(sys.argv[2]) if len(sys.argv) > 2 else 300
h = None
for k, v in vars(registry).items():
    if isinstance(v, dict):
        for kk, vv in v.items():
            if isinstance(vv, dict) and vv.get('name') == name: h = vv
    if isinstance(v, list):
        for vv in v:
            if isinstance(vv, dict) and vv.get('name') == name: h = vv
if h is None:
    print('no such harness'); sys.exit(2)
root = '/var/tmp/calloop-verif.devp'
crate = root + '/calloop'
if not os.path.exists(crate) or os.environ.get('FRESH'):
    shutil.rmtree(root, ignore_errors=True)
    common.new_scratch = lambda tag: (os.makedirs(root, exist_ok=True) or root)
    kani.prepare_scratch('x', {m for m in kani.MODS if os.path.exists('/verif/kani/inner/'+m+'.rs')})
# refresh harness files
for f in glob.glob('/verif/kani/inner/*.rs'):
    shutil.copy(f, crate + '/vk/')
h = dict(h); h['timeout_q'] = to
t = time.time()
r = kani.run_harness(h, crate, root, 'quick')
log = open(r.get('raw_log')).read() if r.get('raw_log') else ''
seen=set()
for l in log.splitlines():
    if l in seen: continue
    seen.add(l)
    if re.search(r'Failed Checks|VERIFICATION|Verification Time|cover prop|^error|Status: ERROR|panicked|unwinding assertion', l):
        print(l)
    if l.startswith(' File:'): print(l)
print({k: r[k] for k in ('status', 'detail', 'solver_s', 'failed_tags', 'cover') if k in r}, 'wall %.1f' % (time.time() - t))
if r['status'] == 'cex' and os.environ.get('REPLAY'):
    print(kani.replay(h, r, crate, root)[0])
