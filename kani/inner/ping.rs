// Engine K harnesses attached to src/sources/ping/eventfd.rs (C03 value level).
#![allow(unused, clippy::all)]
use super::*;
use crate::token::TokenInner;
include!("common.rs");

/// PingSource::process_events over the modelled eventfd for EVERY 64-bit counter value:
/// counter 0 (nothing to read) => error, no callback; otherwise exactly one drain to zero,
/// callback <=> a ping increment is present (counter >= 2), Remove <=> the close marker (LSB)
/// is present, else Continue.  A foreign token does nothing at all.
#[kani::proof]
#[kani::unwind(2)]
fn k_c03_ping_decode() {
    let mut poll = match Poll::new() { Ok(p) => p, Err(e) => { std::mem::forget(e); return; } };
    let r = make_ping();
    let (ping, mut src) = match r { Ok(x) => x, Err(e) => { std::mem::forget(e); return; } };
    let tok0 = TokenInner::from(0x0000_0002_0001_0000usize);
    let mut fac = TokenFactory::new(tok0);
    assert!(v_ok!(src.register(&mut poll, &mut fac)), "C03.dec.register_ok");
    let c: u64 = kani::any();
    verif_world::w().fds[0].counter = c;
    let own: bool = kani::any();
    let ev_tok = if own { Token { inner: tok0 } } else { Token { inner: TokenInner::from(0x0000_0002_0001_0001usize) } };
    let mut calls = 0u8;
    let r = src.process_events(Readiness { readable: true, writable: false, error: false }, ev_tok, |_, _| { calls += 1; });
    if !own {
        assert!(calls == 0 && verif_world::w().fds[0].counter == c, "C01.dec.foreign_token_ignored");
        match &r { Ok(a) => assert!(*a == PostAction::Continue, "C01.dec.foreign_token_continue"), Err(_) => assert!(false, "C01.dec.foreign_no_error") }
    } else if c == 0 {
        assert!(r.is_err(), "C03.dec.nothing_to_read_is_an_error");
        assert!(calls == 0, "C03.dec.no_callback_without_ping");
    } else {
        assert!(r.is_ok(), "C03.dec.drain_ok");
        assert!((calls == 1) == (c >= 2), "C03.dec.callback_iff_ping_present");
        assert!(calls <= 1, "C03.dec.pings_coalesce_into_one_callback");
        if let Ok(a) = &r {
            assert!((*a == PostAction::Remove) == (c & 1 == 1), "C03.dec.remove_iff_close_marker");
            assert!(*a == PostAction::Remove || *a == PostAction::Continue, "C03.dec.only_continue_or_remove");
        }
        assert!(verif_world::w().fds[0].counter == 0, "C03.dec.counter_drained_to_zero");
    }
    kani::cover!(own && c == 3);
    kani::cover!(own && c == 0);
    std::mem::forget(r); std::mem::forget(ping); std::mem::forget(src); std::mem::forget(poll);
}

/// Ping::ping adds exactly 2 to the counter, the drop of the last sender handle exactly 1
/// (close marker), for every counter value that does not overflow; at the cap the write is
/// swallowed (the earlier writes already made the fd readable).
#[kani::proof]
#[kani::unwind(2)]
fn k_c03_ping_increments() {
    let r = make_ping();
    let (ping, src) = match r { Ok(x) => x, Err(e) => { std::mem::forget(e); return; } };
    let c: u64 = kani::any();
    verif_world::w().fds[0].counter = c;
    ping.ping();
    let c1 = verif_world::w().fds[0].counter;
    if c <= u64::MAX - 3 { assert!(c1 == c + 2, "C03.inc.ping_adds_two"); } else { assert!(c1 == c, "C03.inc.saturated_write_is_swallowed"); }
    assert!(c == 0 || c1 != 0, "C03.inc.ping_never_clears");
    if c == 0 { assert!(c1 == 2, "C03.inc.first_ping_makes_fd_readable"); }
    // closing: the Arc<FlagOnDrop> is the only sender handle here
    let c2: u64 = kani::any();
    kani::assume(c2 & 1 == 0); // the close marker is written at most once
    verif_world::w().fds[0].counter = c2;
    drop(ping);
    let c3 = verif_world::w().fds[0].counter;
    if c2 <= u64::MAX - 2 { assert!(c3 == c2 + 1, "C03.inc.close_adds_one"); assert!(c3 & 1 == 1, "C03.inc.close_sets_lsb"); }
    kani::cover!(c == 0);
    std::mem::forget(src);
}
