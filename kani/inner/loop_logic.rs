// Engine K harnesses attached to src/loop_logic.rs (C14 EventIterator).
#![allow(unused, clippy::all)]
use super::*;
include!("common.rs");

/// EventIterator over three polled events with symbolic tokens yields exactly those of the
/// registration's (id, generation), in order, with their own readiness and full token.
#[kani::proof]
#[kani::unwind(5)]
fn k_c14_event_iterator() {
    let reg = RegistrationToken::new(TokenInner::from(kani::any::<usize>()).forget_sub_id());
    let raws: [usize; 3] = [kani::any(), kani::any(), kani::any()];
    let rds: [bool; 3] = [kani::any(), kani::any(), kani::any()];
    let evs = [
        PollEvent { readiness: Readiness { readable: rds[0], writable: false, error: false }, token: Token { inner: TokenInner::from(raws[0]) } },
        PollEvent { readiness: Readiness { readable: rds[1], writable: false, error: false }, token: Token { inner: TokenInner::from(raws[1]) } },
        PollEvent { readiness: Readiness { readable: rds[2], writable: false, error: false }, token: Token { inner: TokenInner::from(raws[2]) } },
    ];
    let mine = |i: usize| TokenInner::from(raws[i]).same_source_as(reg.inner);
    let mut it = EventIterator { inner: evs.iter(), registration_token: reg };
    let mut next_expected = 0usize;
    macro_rules! step { () => {{
        // the next index >= next_expected that belongs to the source
        let exp = if next_expected <= 0 && mine(0) { Some(0) } else if next_expected <= 1 && mine(1) { Some(1) } else if next_expected <= 2 && mine(2) { Some(2) } else { None };
        let got = it.next();
        match (got, exp) {
            (Some((r, t)), Some(i)) => {
                assert!(t == evs[i].token, "C14.it.yields_own_events_in_order_with_full_token");
                assert!(r.readable == rds[i], "C14.it.readiness_of_that_event");
                next_expected = i + 1;
            }
            (None, None) => { next_expected = 3; }
            _ => assert!(false, "C14.it.yields_exactly_the_sources_events"),
        }
    }} }
    step!(); step!(); step!(); step!();
    assert!(it.next().is_none(), "C14.it.ends");
    kani::cover!(mine(0) && mine(2) && !mine(1));
    kani::cover!(!mine(0) && !mine(1) && !mine(2));
}
