// Engine K harnesses attached to src/io.rs (C17 blocking mode and readiness hand-over).
#![allow(unused, clippy::all)]
use super::*;
use crate::token::TokenInner;
include!("common.rs");

/// set_nonblocking on the modelled fcntl: returns the previous state, afterwards the flag is
/// what was asked, nothing else happens; new-then-restore gives the initial state back.
#[kani::proof]
#[kani::unwind(2)]
fn k_c17_set_nonblocking() {
    let fd = verif_world::alloc(verif_world::Kind::Plain).unwrap();
    let i = verif_world::idx(fd).unwrap();
    let initial: bool = kani::any();
    verif_world::w().fds[i].nonblock = initial;
    let want: bool = kani::any();
    let r = set_nonblocking(unsafe { BorrowedFd::borrow_raw(fd) }, want);
    match &r { Ok(prev) => assert!(*prev == initial, "C17.nb.returns_previous_state"), Err(_) => assert!(false, "C17.nb.ok") }
    std::mem::forget(r);
    assert!(verif_world::w().fds[i].nonblock == want, "C17.nb.flag_is_what_was_asked");
    // what Async::new / Drop do: new(true) remembers `initial`, drop restores it
    let r1 = set_nonblocking(unsafe { BorrowedFd::borrow_raw(fd) }, true);
    let was = match &r1 { Ok(p) => *p, Err(_) => false }; std::mem::forget(r1);
    assert!(verif_world::w().fds[i].nonblock, "C17.nb.adapter_makes_fd_nonblocking");
    let r2 = set_nonblocking(unsafe { BorrowedFd::borrow_raw(fd) }, was); std::mem::forget(r2);
    assert!(verif_world::w().fds[i].nonblock == want, "C17.nb.restore_gives_previous_mode_back");
    kani::cover!(initial && !want);
    kani::cover!(!initial && want);
}

/// IoDispatcher::process_events stores the event's readiness and takes the stored waker
/// (so it is woken at most once per registration); readiness() returns-and-clears.
#[kani::proof]
#[kani::unwind(2)]
fn k_c17_io_dispatcher_readiness() {
    let rd = Readiness { readable: kani::any(), writable: kani::any(), error: kani::any() };
    let d = RefCell::new(IoDispatcher { fd: 100, token: None, waker: None, is_registered: false, interest: Interest::EMPTY, last_readiness: Readiness::EMPTY });
    let disp: &dyn EventDispatcher<()> = &d;
    let r = disp.process_events(rd, Token { inner: TokenInner::from(kani::any::<usize>()) }, &mut ());
    match &r { Ok(a) => assert!(*a == PostAction::Continue, "C17.iod.continue"), Err(_) => assert!(false, "C17.iod.ok") }
    std::mem::forget(r);
    let got = d.borrow_mut().readiness();
    assert!(got.readable == rd.readable && got.writable == rd.writable && got.error == rd.error, "C17.iod.readiness_handed_over");
    let again = d.borrow_mut().readiness();
    assert!(!again.readable && !again.writable && !again.error, "C17.iod.readiness_consumed_once");
    kani::cover!(rd.readable);
    std::mem::forget(d);
}
