// Shared helpers, textually included at the top of every harness module
// (`include!("common.rs")`), so every name here is module-local.

#[repr(C)]
struct VRawInstant { sec: i64, nsec: u32 }

/// Build an `Instant` from its two parts (Linux layout: Timespec { tv_sec: i64, tv_nsec: u32 }).
/// `k_selftest_instant_layout` (sys.rs harnesses) fails if the layout ever differs.
fn v_instant(sec: u64, nsec: u32) -> std::time::Instant {
    unsafe { std::mem::transmute::<VRawInstant, std::time::Instant>(VRawInstant { sec: sec as i64, nsec }) }
}

/// The model clock; target of `#[kani::stub(std::time::Instant::now, v_now)]`.
fn v_now() -> std::time::Instant { let w = verif_world::w(); v_instant(w.now_s, w.now_sub) }

/// An arbitrary instant with seconds in [lo, hi) and any nanosecond value.
fn v_any_instant(lo: u64, hi: u64) -> (std::time::Instant, u64, u32) {
    let s: u64 = kani::any(); let n: u32 = kani::any();
    kani::assume(s >= lo && s < hi && n < 1_000_000_000);
    (v_instant(s, n), s, n)
}

fn v_any_action() -> crate::PostAction {
    match kani::any::<u8>() {
        0 => crate::PostAction::Continue, 1 => crate::PostAction::Reregister,
        2 => crate::PostAction::Disable, _ => crate::PostAction::Remove,
    }
}

/// Inspect a Result and forget it, so that no error drop glue is reachable from the harness.
macro_rules! v_ok { ($r:expr) => {{ let r = $r; let ok = r.is_ok(); std::mem::forget(r); ok }} }
