// Engine K harnesses attached to src/token.rs (C20, parts of C01/C06).
#![allow(unused, clippy::all)]
use super::*;
include!("common.rs");

fn any_tok() -> TokenInner { TokenInner { id: kani::any(), version: kani::any(), sub_id: kani::any() } }

/// decode(encode) over all 2^64 raw keys: From<usize> then Into<usize> is the identity
#[kani::proof]
fn k_c20_raw_roundtrip() {
    let raw: usize = kani::any();
    let t = TokenInner::from(raw);
    let back: usize = t.into();
    assert!(back == raw, "C20.tok.raw_roundtrip");
    assert!(t.get_id() == raw >> 32, "C20.tok.id_is_high_32_bits");
    assert!(t.version as usize == (raw >> 16) & 0xffff, "C20.tok.version_bits");
    assert!(t.sub_id as usize == raw & 0xffff, "C20.tok.subid_bits");
    kani::cover!(true);
}

/// encode then decode returns the triple, for every (id, version, sub_id)
#[kani::proof]
fn k_c20_fields_roundtrip() {
    let t = any_tok();
    let raw: usize = t.into();
    let u = TokenInner::from(raw);
    assert!(u.id == t.id && u.version == t.version && u.sub_id == t.sub_id, "C20.tok.fields_roundtrip");
    assert!(u == t, "C20.tok.eq_consistent");
    kani::cover!(true);
}

/// two different triples never share a key
#[kani::proof]
fn k_c20_injective() {
    let a = any_tok(); let b = any_tok();
    let ra: usize = a.into(); let rb: usize = b.into();
    assert!((ra == rb) == (a.id == b.id && a.version == b.version && a.sub_id == b.sub_id), "C20.tok.injective");
    kani::cover!(ra == rb);
    kani::cover!(ra != rb);
}

/// the key equals the poller's reserved usize::MAX only for the single all-ones triple
#[kani::proof]
fn k_c20_notify_key() {
    let t = any_tok();
    let raw: usize = t.into();
    assert!((raw == usize::MAX) == (t.id == u32::MAX && t.version == 0xffff && t.sub_id == 0xffff), "C20.tok.notify_key_only_for_all_ones");
    if (t.id as u64) < (1u64 << 32) - 1 { assert!(raw != usize::MAX, "C20.tok.notify_key_unreachable_below_max_id"); }
    kani::cover!(raw == usize::MAX);
}

/// increment_sub_id is +1 on the sub id and nothing else, below the limit
#[kani::proof]
fn k_c20_sub_increment() {
    let t = any_tok();
    kani::assume(t.sub_id < 0xffff);
    let u = t.increment_sub_id();
    assert!(u.id == t.id && u.version == t.version, "C20.tok.subinc_keeps_source");
    assert!(u.sub_id == t.sub_id + 1, "C20.tok.subinc_plus_one");
    assert!(u.same_source_as(t), "C20.tok.subinc_same_source");
    let ru: usize = u.into(); let rt: usize = t.into();
    assert!(ru == rt + 1, "C20.tok.subinc_key_plus_one");
    kani::cover!(true);
}

/// at the limit it panics instead of wrapping
#[kani::proof]
#[kani::should_panic]
fn k_c20_sub_overflow_panics() {
    let mut t = any_tok();
    t.sub_id = 0xffff;
    let u = t.increment_sub_id();
    std::mem::forget(u);
}

/// increment_version: +1 modulo 2^16, sub id reset, id kept, and the result names another source
#[kani::proof]
fn k_c20_version_increment() {
    let t = any_tok();
    let u = t.increment_version();
    assert!(u.id == t.id, "C20.tok.verinc_keeps_id");
    assert!(u.sub_id == 0, "C20.tok.verinc_resets_sub");
    assert!(u.version == t.version.wrapping_add(1), "C20.tok.verinc_plus_one_mod_2_16");
    assert!(!u.same_source_as(t), "C20.tok.verinc_other_source");
    kani::cover!(t.version == 0xffff);
}

/// same_source_as <=> id and version equal; forget_sub_id is idempotent and keeps the source
#[kani::proof]
fn k_c20_same_source() {
    let a = any_tok(); let b = any_tok();
    assert!(a.same_source_as(b) == (a.id == b.id && a.version == b.version), "C20.tok.same_source_iff");
    let f = a.forget_sub_id();
    assert!(f.id == a.id && f.version == a.version && f.sub_id == 0, "C20.tok.forget_sub");
    assert!(f.forget_sub_id() == f, "C20.tok.forget_idempotent");
    assert!(f.same_source_as(a), "C20.tok.forget_same_source");
    kani::cover!(a.same_source_as(b));
}

/// TokenInner::new accepts exactly the ids that fit in 32 bits and starts at generation 0
#[kani::proof]
fn k_c20_new() {
    let id: usize = kani::any();
    let r = TokenInner::new(id);
    match r {
        Ok(t) => { assert!(id <= u32::MAX as usize && t.id as usize == id && t.version == 0 && t.sub_id == 0, "C20.tok.new_ok"); }
        Err(()) => { assert!(id > u32::MAX as usize, "C20.tok.new_err"); }
    }
    kani::cover!(id > u32::MAX as usize);
}
