// Engine K harnesses attached to src/sources/generic.rs
// (C01 token match, C07 unregister silences, C15 failing registration, C16 poller table).
#![allow(unused, clippy::all)]
use super::*;
use crate::token::TokenInner;
include!("common.rs");

struct MFd(std::os::unix::io::RawFd);
impl AsFd for MFd { fn as_fd(&self) -> BorrowedFd<'_> { unsafe { BorrowedFd::borrow_raw(self.0) } } }
fn any_mode() -> Mode { match kani::any::<u8>() { 0 => Mode::OneShot, 1 => Mode::Level, _ => Mode::Edge } }
fn any_interest() -> Interest { Interest { readable: kani::any(), writable: kani::any() } }
fn any_readiness() -> Readiness { Readiness { readable: kani::any(), writable: kani::any(), error: kani::any() } }
fn pmode(m: Mode) -> verif_world::PMode { match m { Mode::OneShot => verif_world::PMode::Oneshot, Mode::Level => verif_world::PMode::Level, Mode::Edge => verif_world::PMode::Edge } }

/// C01: the callback runs iff the event's token is the one stored at (re)registration, and
/// then with the event's own readiness; an unregistered Generic (token None) ignores everything.
#[kani::proof]
#[kani::unwind(2)]
fn k_c01_generic_token_match() {
    let fd = verif_world::alloc(verif_world::Kind::Plain).unwrap();
    let mut g: Generic<MFd> = Generic::new(MFd(fd), any_interest(), any_mode());
    let has: bool = kani::any();
    let stored = Token { inner: TokenInner::from(kani::any::<usize>()) };
    if has { g.token = Some(stored); }
    let ev_tok = Token { inner: TokenInner::from(kani::any::<usize>()) };
    let rd = any_readiness();
    let ret = v_any_action();
    let mut calls: u8 = 0;
    let mut seen = Readiness::EMPTY;
    let r = g.process_events(rd, ev_tok, |r, _| { calls += 1; seen = r; Ok(ret) });
    let expect = has && stored == ev_tok;
    assert!(calls == expect as u8, "C01.gen.callback_iff_own_token");
    if expect {
        assert!(seen.readable == rd.readable && seen.writable == rd.writable && seen.error == rd.error, "C01.gen.readiness_passed_unchanged");
        match &r { Ok(a) => assert!(*a == ret, "C09.gen.callback_action_returned"), Err(_) => assert!(false, "C01.gen.no_error") }
    } else {
        match &r { Ok(a) => assert!(*a == PostAction::Continue, "C09.gen.foreign_event_is_continue"), Err(_) => assert!(false, "C01.gen.no_error") }
    }
    kani::cover!(expect);
    kani::cover!(has && !expect);
    std::mem::forget(r); std::mem::forget(g);
}

/// the table of the model poller for this fd
fn tbl(fd: i32) -> &'static verif_world::Fd { &verif_world::w().fds[verif_world::idx(fd).unwrap()] }

/// One symbolic step of {register, reregister, unregister} with a symbolic fault in the poller.
/// Invariant (C16): fd in the kernel table <=> g.token.is_some() <=> g.poller.is_some(), and
/// then with the last interest/mode/key that was registered; a failing call changes nothing.
macro_rules! gen_step { ($g:ident, $poll:ident, $fd:ident, $tok:ident, $reg:ident) => {{
    let op: u8 = kani::any();
    let fault: bool = kani::any();
    let w = verif_world::w();
    let before = *tbl($fd);
    if op == 0 {
        w.fail_add = fault;
        let ok = v_ok!($g.register(&mut $poll, &mut TokenFactory::new($tok)));
        if $reg || fault { assert!(!ok, "C16.gen.double_or_faulty_register_fails"); }
        else { assert!(ok, "C16.gen.register_succeeds"); $reg = true; }
        w.fail_add = false;
    } else if op == 1 {
        w.fail_modify = fault;
        let ok = v_ok!($g.reregister(&mut $poll, &mut TokenFactory::new($tok)));
        assert!(ok == ($reg && !fault), "C16.gen.reregister_needs_registration");
        w.fail_modify = false;
    } else {
        w.fail_delete = fault;
        let ok = v_ok!($g.unregister(&mut $poll));
        assert!(ok == ($reg && !fault), "C16.gen.unregister_needs_registration");
        if ok { $reg = false; }
        w.fail_delete = false;
    }
    let t = tbl($fd);
    assert!(t.reg == $reg, "C16.gen.kernel_table_matches_registration");
    assert!($g.token.is_some() == $reg, "C07.gen.token_present_iff_registered");
    assert!($g.poller.is_some() == $reg, "C16.gen.poller_handle_iff_registered");
    if $reg {
        let key: usize = $g.token.unwrap().inner.into();
        assert!(t.key == key, "C16.gen.key_is_stored_token");
        assert!(key == usize::from($tok), "C20.gen.token_is_first_of_factory");
    }
    if fault { assert!(t.reg == before.reg && t.key == before.key && t.want_r == before.want_r && t.want_w == before.want_w, "C15.gen.failed_call_changes_nothing"); }
}} }

#[kani::proof]
#[kani::unwind(2)]
fn k_c16_generic_steps() {
    let mut poll = match Poll::new() { Ok(p) => p, Err(e) => { std::mem::forget(e); return; } };
    let fd = verif_world::alloc(verif_world::Kind::Plain).unwrap();
    let mut g: Generic<MFd> = Generic::new(MFd(fd), any_interest(), any_mode());
    let tok = TokenInner::from(kani::any::<usize>()).forget_sub_id();
    kani::assume(usize::from(tok) != usize::MAX);
    let mut reg = false;
    gen_step!(g, poll, fd, tok, reg);
    gen_step!(g, poll, fd, tok, reg);
    gen_step!(g, poll, fd, tok, reg);
    kani::cover!(reg);
    kani::cover!(!reg);
    std::mem::forget(g); std::mem::forget(poll);
}

/// After a successful register / reregister the kernel table carries exactly the Generic's
/// current interest, mode and key (C16 "with the interest, trigger mode and key it last
/// (re)registered"); a failed register leaves poller/token None and the table untouched (C15).
#[kani::proof]
#[kani::unwind(2)]
fn k_c16_generic_register_exact() {
    let mut poll = match Poll::new() { Ok(p) => p, Err(e) => { std::mem::forget(e); return; } };
    let fd = verif_world::alloc(verif_world::Kind::Plain).unwrap();
    let (i1, m1) = (any_interest(), any_mode());
    let mut g: Generic<MFd> = Generic::new(MFd(fd), i1, m1);
    let tok = TokenInner::from(kani::any::<usize>()).forget_sub_id();
    kani::assume(usize::from(tok) != usize::MAX);
    let w = verif_world::w();
    w.fail_add = kani::any();
    let failing = w.fail_add;
    let ok = v_ok!(g.register(&mut poll, &mut TokenFactory::new(tok)));
    assert!(ok != failing, "C15.gen.register_error_reported");
    if !ok {
        assert!(g.token.is_none() && g.poller.is_none() && !tbl(fd).reg, "C15.gen.failed_register_leaves_no_trace");
        // retry works
        let ok2 = v_ok!(g.register(&mut poll, &mut TokenFactory::new(tok)));
        assert!(ok2, "C15.gen.register_can_be_retried");
    }
    { let t = tbl(fd); assert!(t.reg && t.key == usize::from(tok) && t.want_r == i1.readable && t.want_w == i1.writable && t.mode == pmode(m1) && t.armed, "C16.gen.register_records_interest_mode_key"); }
    let (i2, m2) = (any_interest(), any_mode());
    g.interest = i2; g.mode = m2;
    let ok3 = v_ok!(g.reregister(&mut poll, &mut TokenFactory::new(tok)));
    assert!(ok3, "C16.gen.reregister_ok");
    { let t = tbl(fd); assert!(t.reg && t.key == usize::from(tok) && t.want_r == i2.readable && t.want_w == i2.writable && t.mode == pmode(m2) && t.armed, "C16.gen.reregister_records_new_interest_mode_and_rearms"); }
    kani::cover!(failing);
    std::mem::forget(g); std::mem::forget(poll);
}

/// Drop and unwrap() remove the fd from the kernel table whenever it is registered, and never
/// call delete when it is not (C16: dropped/unwrapped in any order relative to the loop).
/// Control (state, drop|unwrap) is concrete per harness so that the poller's error branch --
/// whose io::Error drop glue is the expensive part -- is constant-folded away; token,
/// interest and mode stay symbolic.
macro_rules! drop_family { ($($name:ident: $do_reg:expr, $do_unreg:expr, $by_unwrap:expr;)*) => { $(
#[kani::proof]
#[kani::unwind(2)]
fn $name() {
    let mut poll = match Poll::new() { Ok(p) => p, Err(e) => { std::mem::forget(e); return; } };
    let fd = verif_world::alloc(verif_world::Kind::Plain).unwrap();
    let mut g: Generic<MFd> = Generic::new(MFd(fd), any_interest(), any_mode());
    // concrete token: keeps the model poller's EINVAL/ENOENT branches (and with them the
    // io::Error drop glue behind `.ok()`) constant-folded away; the token plays no role in drop
    let tok = TokenInner::from(0x0000_0003_0002_0000usize);
    let mut reg = false;
    if $do_reg { reg = v_ok!(g.register(&mut poll, &mut TokenFactory::new(tok))); assert!(reg, "C16.drop.setup"); }
    if reg && $do_unreg { let ok = v_ok!(g.unregister(&mut poll)); assert!(ok, "C16.drop.setup2"); reg = false; }
    // the poller outlives the loop through the Arc the Generic holds
    std::mem::forget(poll);
    let n_del = verif_world::w().n_delete;
    if $by_unwrap { let f = g.unwrap(); std::mem::forget(f); } else { drop(g); }
    assert!(!tbl(fd).reg, "C16.drop.fd_not_registered_afterwards");
    assert!(verif_world::w().n_delete == n_del + reg as u32, "C16.drop.delete_called_iff_registered");
    kani::cover!(true);
}
)* } }
drop_family! {
    k_c16_generic_drop_never: false, false, false;
    k_c16_generic_drop_registered: true, false, false;
    k_c16_generic_drop_unregistered: true, true, false;
    k_c16_generic_unwrap_never: false, false, true;
    k_c16_generic_unwrap_registered: true, false, true;
    k_c16_generic_unwrap_unregistered: true, true, true;
}
