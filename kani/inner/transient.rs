// Engine K harnesses attached to src/sources/transient.rs (C18).
#![allow(unused, clippy::all)]
use super::*;
use crate::{EventSource, Poll, PostAction, Readiness, Token, TokenFactory};
use crate::token::TokenInner;
include!("common.rs");

/// A child that records its registration state and flags every protocol breach it sees:
/// register-while-registered, unregister/reregister-while-unregistered, event-while-
/// unregistered, drop-while-registered.  `id` tells children apart (replace()).
struct Child { id: u8, registered: bool, ret: PostAction }
static mut BAD: u8 = 0;       // first breach seen (0 = none)
static mut LIVE_REG: u8 = 0;  // number of children currently registered
static mut EVENTS_FROM: u8 = 0; // id of the last child that processed an event
fn bad(code: u8) { unsafe { if BAD == 0 { BAD = code; } } }
impl EventSource for Child {
    type Event = u8; type Metadata = (); type Ret = (); type Error = crate::Error;
    fn process_events<F>(&mut self, _: Readiness, _: Token, mut cb: F) -> Result<PostAction, crate::Error>
    where F: FnMut(u8, &mut ()) {
        if !self.registered { bad(3); }
        unsafe { EVENTS_FROM = self.id; }
        cb(self.id, &mut ());
        Ok(self.ret)
    }
    fn register(&mut self, _: &mut Poll, _: &mut TokenFactory) -> crate::Result<()> { if self.registered { bad(1); } else { unsafe { LIVE_REG += 1; } } self.registered = true; Ok(()) }
    fn reregister(&mut self, _: &mut Poll, _: &mut TokenFactory) -> crate::Result<()> { if !self.registered { bad(4); } Ok(()) }
    fn unregister(&mut self, _: &mut Poll) -> crate::Result<()> { if !self.registered { bad(2); } else { unsafe { LIVE_REG -= 1; } } self.registered = false; Ok(()) }
}
impl Drop for Child { fn drop(&mut self) { if self.registered { bad(5); } } }

/// One symbolic operation of the documented protocol.  `parent` = parent registered;
/// `dirty` = a re-registration is owed (the wrapper returned Reregister, or remove()/replace()
/// was called: "a re-registration is requested after each change").  While one is owed the only
/// parent calls are reregister or unregister, as the loop would do.
macro_rules! ts_step { ($ts:ident, $poll:ident, $fac:ident, $tok:ident, $parent:ident, $dirty:ident, $next_id:ident, $cur:ident, $second_change:ident, $disabled:ident) => {{
    let op: u8 = kani::any();
    if $dirty && op >= 200 && !$second_change {
        // a second change during the same processing (the documented "may be called at any time
        // during processing"): e.g. the child just asked for Remove/Disable and the parent replaces
        // or removes it before returning Reregister -- still ONE owed re-registration
        $second_change = true;
        if op & 1 == 0 { $ts.remove(); $cur = 0; $disabled = false; }
        else if $next_id < 4 { let was_none = $ts.is_none(); $ts.replace(Child { id: $next_id, registered: false, ret: PostAction::Continue }); $cur = if was_none { 0 } else { $next_id }; $next_id += 1; if !was_none { $disabled = false; } }
    } else if $dirty {
        $second_change = false;
        // the loop applies the owed re-registration (or the user disables/removes the parent)
        if op & 1 == 0 {
            if $parent { assert!(v_ok!($ts.reregister(&mut $poll, &mut $fac)), "C18.tr.reregister_ok"); }
            else { assert!(v_ok!($ts.register(&mut $poll, &mut $fac)), "C18.tr.register_ok"); $parent = true; $disabled = false; }
            $dirty = false;
        } else if $parent {
            assert!(v_ok!($ts.unregister(&mut $poll)), "C18.tr.unregister_ok"); $parent = false;
        }
    } else if op == 0 {
        if $parent {
            let ret = v_any_action();
            let _ = $ts.map(|c| c.ret = ret);
            let mut from: u8 = 0;
            let r = $ts.process_events(Readiness::EMPTY, Token { inner: $tok }, |id, _| { from = id; });
            match &r {
                Ok(a) => {
                    assert!(*a == PostAction::Continue || *a == PostAction::Reregister, "C18.tr.only_continue_or_reregister");
                    if *a == PostAction::Reregister { $dirty = true; }
                    if ret == PostAction::Remove || ret == PostAction::Disable { if from != 0 { assert!(*a == PostAction::Reregister, "C18.tr.state_change_requests_reregistration"); } }
                }
                Err(_) => assert!(false, "C18.tr.process_ok"),
            }
            std::mem::forget(r);
            if from != 0 { assert!(from == $cur, "C18.tr.events_only_from_current_child"); if ret == PostAction::Remove { $cur = 0; } if ret == PostAction::Disable { $disabled = true; } }
        }
    } else if op == 1 {
        $ts.remove(); $cur = 0; $dirty = true; $disabled = false;
    } else if op == 2 {
        if $next_id < 4 { let was_none = $ts.is_none(); $ts.replace(Child { id: $next_id, registered: false, ret: PostAction::Continue }); if $cur != 0 || !$ts.is_none() { $cur = if $ts.is_none() { 0 } else { $next_id }; } $next_id += 1; $dirty = true; if !was_none { $disabled = false; } }
    } else if op == 3 {
        if $parent { assert!(v_ok!($ts.unregister(&mut $poll)), "C18.tr.unregister_ok"); $parent = false; }
        else { assert!(v_ok!($ts.register(&mut $poll, &mut $fac)), "C18.tr.register_ok"); $parent = true; $disabled = false; }
    } else {
        if $parent { assert!(v_ok!($ts.reregister(&mut $poll, &mut $fac)), "C18.tr.reregister_ok"); }
    }
    unsafe {
        assert!(BAD != 1, "C18.tr.child_registered_twice");
        assert!(BAD != 2, "C18.tr.child_unregistered_twice");
        assert!(BAD != 3, "C18.tr.event_forwarded_to_unregistered_child");
        assert!(BAD != 4, "C18.tr.child_reregistered_while_unregistered");
        assert!(BAD != 5, "C18.tr.child_dropped_while_registered");
        assert!(LIVE_REG <= 1, "C18.tr.at_most_one_child_registered");
        if !$parent { assert!(LIVE_REG == 0, "C18.tr.no_child_registered_under_unregistered_parent"); }
        // C07 at the child's level: once the Disable a child asked for has been applied (no re-registration owed any more),
        // the child stays out of the poller until the PARENT is registered anew (enable) or the child is replaced
        if $disabled && !$dirty { assert!(LIVE_REG == 0, "C07.tr.disabled_child_registered_again_without_enable"); }
    }
}} }

macro_rules! ts_harness { ($name:ident, $from_child:expr, $($s:tt)*) => {
#[kani::proof]
#[kani::unwind(3)]
fn $name() {
    let mut poll = match Poll::new() { Ok(p) => p, Err(e) => { std::mem::forget(e); return; } };
    let tok = TokenInner::from(0x0000_0001_0000_0000usize);
    let mut fac = TokenFactory::new(tok);
    let mut ts: TransientSource<Child> = if $from_child { Child { id: 1, registered: false, ret: PostAction::Continue }.into() } else { TransientSource { state: TransientSourceState::None } };
    let mut cur: u8 = if $from_child { 1 } else { 0 };
    let mut next_id: u8 = 2;
    // insertion registers the parent
    assert!(v_ok!(ts.register(&mut poll, &mut fac)), "C18.tr.register_ok");
    let mut parent = true; let mut dirty = false; let mut second_change = false; let mut disabled = false;
    unsafe { assert!(LIVE_REG == cur.min(1) && BAD == 0, "C18.tr.initial_child_registered_with_parent"); }
    $( let _ = $s; ts_step!(ts, poll, fac, tok, parent, dirty, next_id, cur, second_change, disabled); )*
    kani::cover!(parent && !dirty);
    std::mem::forget(ts); std::mem::forget(poll);
}
} }
ts_harness!(k_c18_transient_3ops, true, 1 2 3);
ts_harness!(k_c18_transient_4ops, true, 1 2 3 4);
ts_harness!(k_c18_transient_5ops, true, 1 2 3 4 5);
ts_harness!(k_c18_transient_empty_3ops, false, 1 2 3);

/// processing events on an empty wrapper is a harmless no-op
#[kani::proof]
#[kani::unwind(3)]
fn k_c18_transient_empty_noop() {
    let mut ts: TransientSource<Child> = TransientSource { state: TransientSourceState::None };
    let mut calls = 0u8;
    let r = ts.process_events(Readiness::EMPTY, Token { inner: TokenInner::from(0usize) }, |_, _| { calls += 1; });
    match &r { Ok(a) => assert!(*a == PostAction::Continue, "C18.tr.empty_is_continue"), Err(_) => assert!(false, "C18.tr.empty_no_error") }
    assert!(calls == 0 && ts.is_none(), "C18.tr.empty_no_callback");
    assert!(ts.map(|_| ()).is_none(), "C18.tr.empty_map_none");
    kani::cover!(true);
    std::mem::forget(r);
}


// ---------------------------------------------------------------- inductive step
/// Representation invariant of TransientSource relative to the parent's registration `P`:
///   Keep(c): c registered == P            Register(c): c not registered
///   Disable(c): c registered == P         Disabled(c): c not registered
///   Remove(c): c registered == P          Replace{new, old}: new not registered, old registered == P
///   None: -
/// (`dirty` = a re-registration is owed; in Disable/Remove/Replace states one always is.)
/// From ANY state satisfying it, one symbolic protocol operation re-establishes it, the child
/// mock sees no protocol breach, and only Continue|Reregister is returned.  From<T> and Default
/// satisfy it with P = false, so it holds after every protocol-following history.
fn child(id: u8, registered: bool) -> Child { unsafe { if registered { LIVE_REG += 1; } } Child { id, registered, ret: PostAction::Continue } }

fn inv_ok(ts: &TransientSource<Child>, p: bool) -> bool {
    match &ts.state {
        TransientSourceState::Keep(c) | TransientSourceState::Disable(c) | TransientSourceState::Remove(c) => c.registered == p,
        TransientSourceState::Register(c) | TransientSourceState::Disabled(c) => !c.registered,
        TransientSourceState::Replace { new, old } => !new.registered && old.registered == p,
        TransientSourceState::None => true,
    }
}
fn owes_reregistration(ts: &TransientSource<Child>, parent: bool) -> bool {
    // a child waiting to be registered under a REGISTERED parent only arises from replace() on a
    // disabled child, i.e. with a re-registration owed (under an unregistered parent the next
    // parent register() does it)
    matches!(&ts.state, TransientSourceState::Disable(_) | TransientSourceState::Remove(_) | TransientSourceState::Replace { .. })
        || (parent && matches!(&ts.state, TransientSourceState::Register(_)))
}

macro_rules! ts_inductive { ($($name:ident: $mk:expr;)*) => { $(
#[kani::proof]
#[kani::unwind(3)]
fn $name() {
    let mut poll = match Poll::new() { Ok(p) => p, Err(e) => { std::mem::forget(e); return; } };
    let tok = TokenInner::from(0x0000_0001_0000_0000usize);
    let mut fac = TokenFactory::new(tok);
    let mut parent: bool = kani::any();
    let mk: fn(bool) -> TransientSourceState<Child> = $mk;
    let mut ts = TransientSource { state: mk(parent) };
    kani::assume(inv_ok(&ts, parent));
    let mut dirty = owes_reregistration(&ts, parent) || kani::any::<bool>();
    let mut next_id: u8 = 3;
    let mut second_change = false;
    let mut disabled = matches!(&ts.state, TransientSourceState::Disable(_) | TransientSourceState::Disabled(_));
    let mut cur: u8 = ts.map(|c| c.id).unwrap_or(0);
    ts_step!(ts, poll, fac, tok, parent, dirty, next_id, cur, second_change, disabled);
    assert!(inv_ok(&ts, parent), "C18.ind.invariant_reestablished");
    if owes_reregistration(&ts, parent) { assert!(dirty, "C18.ind.pending_change_owes_reregistration"); }
    kani::cover!(parent);
    kani::cover!(!parent);
    std::mem::forget(ts); std::mem::forget(poll);
}
)* } }
ts_inductive! {
    k_c18_ind_keep: |p| TransientSourceState::Keep(child(1, p));
    k_c18_ind_register: |_p| TransientSourceState::Register(child(1, false));
    k_c18_ind_disable: |p| TransientSourceState::Disable(child(1, p));
    k_c18_ind_disabled: |_p| TransientSourceState::Disabled(child(1, false));
    k_c18_ind_remove: |p| TransientSourceState::Remove(child(1, p));
    k_c18_ind_replace: |p| TransientSourceState::Replace { new: child(2, false), old: child(1, p) };
    k_c18_ind_none: |_p| TransientSourceState::None;
}
