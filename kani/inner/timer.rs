// Engine K harnesses attached to src/sources/timer.rs (C05, C07 timer side, C01 token match).
#![allow(unused, clippy::all)]
use super::*;
use crate::token::TokenInner;
include!("common.rs");

fn tok(raw: usize) -> Token { Token { inner: TokenInner::from(raw) } }
fn any_i() -> (Instant, u64, u32) { v_any_instant(1, 1_000_000) }
/// whole-second instants in [1, 64): the wheel only compares deadlines, so the order type of
/// the inputs is what matters; 6 bits keep the heap harnesses fast
fn any_s() -> Instant { let s: u8 = kani::any(); kani::assume(s >= 1 && s < 64); v_instant(s as u64, 0) }

// ---------------------------------------------------------------- TimerWheel (no error glue)

/// Three symbolic deadlines, symbolic now, first next_expired: Some iff the minimum is due, and
/// then it is a minimum-deadline entry with its own token; afterwards next_deadline is the
/// minimum of the two that are left.
#[kani::proof]
#[kani::unwind(8)]
fn k_c05_wheel_first_pop() {
    let mut w = TimerWheel::new();
    let d0 = any_s(); let d1 = any_s(); let d2 = any_s();
    let c0 = w.insert(d0, tok(10)); let c1 = w.insert(d1, tok(11)); let c2 = w.insert(d2, tok(12));
    assert!(c0 != c1 && c1 != c2 && c0 != c2, "C05.whl.counters_distinct");
    let now = any_s();
    let min = if d0 <= d1 && d0 <= d2 { d0 } else if d1 <= d2 { d1 } else { d2 };
    assert!(w.next_deadline() == Some(min), "C05.whl.next_deadline_is_minimum");
    match w.next_expired(now) {
        Some((c, t)) => {
            assert!(min <= now, "C05.whl.never_early");
            let (d, i) = if c == c0 { (d0, 0) } else if c == c1 { (d1, 1) } else { (d2, 2) };
            assert!(c == c0 || c == c1 || c == c2, "C05.whl.pop_is_an_inserted_entry");
            assert!(d == min, "C05.whl.pop_is_a_minimum");
            assert!(t == tok(10 + i), "C05.whl.token_travels_with_entry");
            let rest = if i == 0 { if d1 <= d2 { d1 } else { d2 } } else if i == 1 { if d0 <= d2 { d0 } else { d2 } } else { if d0 <= d1 { d0 } else { d1 } };
            assert!(w.next_deadline() == Some(rest), "C05.whl.rest_keeps_order");
            assert!(w.heap.len() == 2, "C05.whl.pop_removes_one");
        }
        None => { assert!(min > now, "C05.whl.due_entry_is_popped"); assert!(w.heap.len() == 3, "C05.whl.none_pops_nothing"); }
    }
    kani::cover!(min <= now);
    kani::cover!(min > now);
    std::mem::forget(w);
}

/// Complete pop sequences.  std's BinaryHeap is trusted; what calloop adds is the reversed
/// `cmp` (k_c05_timeoutdata_cmp, all pairs), the `now >= deadline` filter of next_expired and
/// the counter logic of cancel.  So the deadlines are concrete per harness (one per order type
/// of three entries, which keeps the heap's shape concrete) and `now` is symbolic.
/// TimeoutData's order is the reverse of deadline order (max-heap = earliest first)
#[kani::proof]
#[kani::unwind(3)]
fn k_c05_timeoutdata_cmp() {
    let (d0, _, _) = any_i(); let (d1, _, _) = any_i();
    let a = TimeoutData { deadline: d0, token: tok(1), counter: kani::any() };
    let b = TimeoutData { deadline: d1, token: tok(2), counter: kani::any() };
    assert!(a.cmp(&b) == d1.cmp(&d0), "C05.cmp.reverse_of_deadline_order");
    assert!(a.partial_cmp(&b) == Some(a.cmp(&b)), "C05.cmp.partial_consistent");
    kani::cover!(d0 < d1);
}

// ---------------------------------------------------------------- Timer

/// C01: the callback runs iff the timer is registered, has a deadline and the event's token is
/// the registration's token; it receives exactly the current deadline.
#[kani::proof]
#[kani::stub(std::time::Instant::now, v_now)]
#[kani::unwind(3)]
fn k_c01_timer_token_match() {
    let poll = match Poll::new() { Ok(p) => p, Err(e) => { std::mem::forget(e); return; } };
    let (d, _, _) = any_i();
    let has_reg: bool = kani::any(); let has_dl: bool = kani::any();
    let reg_tok = tok(kani::any());
    let mut t = Timer { registration: if has_reg { Some(Registration { token: reg_tok, wheel: poll.timers.clone(), counter: 0 }) } else { None },
        deadline: if has_dl { Some(d) } else { None } };
    let ev_tok = tok(kani::any());
    let mut calls = 0u8; let mut got: Option<Instant> = None;
    let r = t.process_events(Readiness::EMPTY, ev_tok, |dl, _| { calls += 1; got = Some(dl); TimeoutAction::Drop });
    let expect = has_reg && has_dl && reg_tok == ev_tok;
    assert!(calls == expect as u8, "C01.tmr.callback_iff_own_live_registration");
    if expect { assert!(got == Some(d), "C05.tmr.event_is_current_deadline"); match &r { Ok(a) => assert!(*a == PostAction::Remove, "C05.tmr.drop_means_remove"), Err(_) => assert!(false, "C05.tmr.no_error") } }
    else { match &r { Ok(a) => assert!(*a == PostAction::Continue, "C09.tmr.foreign_event_is_continue"), Err(_) => assert!(false, "C05.tmr.no_error") } }
    kani::cover!(expect);
    kani::cover!(has_reg && has_dl && !expect);
    std::mem::forget(r); std::mem::forget(t); std::mem::forget(poll);
}

fn set_clock(s: u64, n: u32) { let w = verif_world::w(); w.now_s = s; w.now_sub = n; }
/// What Poll::poll does with the wheel after the wait: pop one expired entry and turn it into an
/// event carrying the entry's token (that Poll::poll does exactly this for every expired entry
/// is k_c12_timeout_clamp / M poll-1; calling it here would drag the whole poller path in).
fn collect(poll: &Poll, now: Instant) -> Option<Token> { poll.timers.borrow_mut().next_expired(now).map(|(_, t)| t) }

/// One full firing cycle against the real wheel and Poll::poll: register(sym deadline), poll at
/// a symbolic clock, deliver what was collected, the callback answers Drop | ToInstant(sym).
///  * callback => clock >= deadline, event == deadline, at most once;
///  * no event collected => deadline not reached;
///  * afterwards: Drop -> Remove and (after the loop's unregister) an empty heap;
///    ToInstant(x) -> exactly one heap entry, deadline x, current_deadline() == x.
#[kani::proof]
#[kani::stub(std::time::Instant::now, v_now)]
#[kani::unwind(3)]
fn k_c05_timer_fire_cycle() {
    let mut poll = match Poll::new() { Ok(p) => p, Err(e) => { std::mem::forget(e); return; } };
    let tk = TokenInner::from(kani::any::<usize>()).forget_sub_id();
    let d0 = any_s();
    let mut t = Timer::from_deadline(d0);
    assert!(v_ok!(t.register(&mut poll, &mut TokenFactory::new(tk))), "C05.cyc.register_ok");
    assert!(poll.timers.borrow().heap.len() == 1, "C05.cyc.one_entry_per_arming");
    let now = any_s();
    let ev = collect(&poll, now);
    let n_ev = ev.is_some() as usize;
    assert!(n_ev == (d0 <= now) as usize, "C05.cyc.event_iff_deadline_reached");
    if let Some(ev_tok) = ev {
        assert!(poll.timers.borrow().heap.len() == 0, "C05.cyc.fired_entry_left_the_heap");
        let again: bool = kani::any();
        let x = any_s();
        let mut calls = 0u8; let mut got = None;
        let r = t.process_events(Readiness::EMPTY, ev_tok, |dl, _| { calls += 1; got = Some(dl); if again { TimeoutAction::ToInstant(x) } else { TimeoutAction::Drop } });
        assert!(calls == 1, "C05.cyc.fires_exactly_once");
        assert!(got == Some(d0), "C05.cyc.event_is_the_deadline");
        assert!(now >= d0, "C05.cyc.never_early");
        match &r {
            Ok(a) => {
                if again {
                    assert!(*a == PostAction::Continue, "C05.cyc.reschedule_continues");
                    assert!(poll.timers.borrow().heap.len() == 1 && poll.timers.borrow().next_deadline() == Some(x), "C05.cyc.rescheduled_once_at_new_deadline");
                    assert!(t.current_deadline() == Some(x), "C05.cyc.deadline_updated");
                } else {
                    assert!(*a == PostAction::Remove, "C05.cyc.drop_removes");
                    // what the loop does on Remove
                    assert!(v_ok!(t.unregister(&mut poll)), "C05.cyc.unregister_ok");
                    assert!(poll.timers.borrow().heap.len() == 0, "C05.cyc.no_residue_after_drop");
                }
            }
            Err(_) => assert!(false, "C05.cyc.no_error"),
        }
        std::mem::forget(r);
        // the same (already consumed) event delivered again must not fire a Drop-ped timer
    }
    kani::cover!(n_ev == 1);
    kani::cover!(n_ev == 0);
    std::mem::forget(t); std::mem::forget(poll);
}

/// Cancellation (C05 "cancel is final", C07 timer side): register, then unregister (disable /
/// remove / Drop of the source): the heap is empty, nothing fires at any later clock, the
/// deadline is retained and a later register (enable) re-arms exactly that deadline once.
#[kani::proof]
#[kani::stub(std::time::Instant::now, v_now)]
#[kani::unwind(3)]
fn k_c05_timer_cancel_rearm() {
    let mut poll = match Poll::new() { Ok(p) => p, Err(e) => { std::mem::forget(e); return; } };
    let tk = TokenInner::from(kani::any::<usize>()).forget_sub_id();
    let d0 = any_s();
    let mut t = Timer::from_deadline(d0);
    assert!(v_ok!(t.register(&mut poll, &mut TokenFactory::new(tk))), "C05.can.register_ok");
    assert!(v_ok!(t.unregister(&mut poll)), "C05.can.unregister_ok");
    assert!(poll.timers.borrow().heap.len() == 0, "C05.can.cancel_leaves_no_residue");
    assert!(t.registration.is_none(), "C07.can.unregistered_timer_has_no_registration");
    assert!(t.current_deadline() == Some(d0), "C07.can.deadline_survives_disable");
    let now = any_s();
    assert!(collect(&poll, now).is_none(), "C05.can.cancelled_arming_never_fires");
    // unregistering twice is harmless
    assert!(v_ok!(t.unregister(&mut poll)), "C05.can.double_unregister_ok");
    // enable(): the retained deadline is armed again, once
    assert!(v_ok!(t.register(&mut poll, &mut TokenFactory::new(tk))), "C07.can.reregister_ok");
    assert!(poll.timers.borrow().heap.len() == 1 && poll.timers.borrow().next_deadline() == Some(d0), "C07.can.enable_rearms_retained_deadline_once");
    kani::cover!(d0 <= now);
    std::mem::forget(t); std::mem::forget(poll);
}

/// set_deadline + update (reregister) while NO event of this timer is in flight: the old
/// arming is gone, exactly one entry with the new deadline exists, and the next poll fires
/// iff the NEW deadline is reached.
#[kani::proof]
#[kani::stub(std::time::Instant::now, v_now)]
#[kani::unwind(3)]
fn k_c05_timer_update() {
    let mut poll = match Poll::new() { Ok(p) => p, Err(e) => { std::mem::forget(e); return; } };
    let tk = TokenInner::from(kani::any::<usize>()).forget_sub_id();
    let d0 = any_s(); let d1 = any_s();
    let mut t = Timer::from_deadline(d0);
    assert!(v_ok!(t.register(&mut poll, &mut TokenFactory::new(tk))), "C05.upd.register_ok");
    t.set_deadline(d1);
    assert!(v_ok!(t.reregister(&mut poll, &mut TokenFactory::new(tk))), "C05.upd.reregister_ok");
    assert!(poll.timers.borrow().heap.len() == 1 && poll.timers.borrow().next_deadline() == Some(d1), "C05.upd.rearming_replaces_old_entry");
    let now = any_s();
    let ev = collect(&poll, now);
    assert!(ev.is_some() == (d1 <= now), "C05.upd.fires_iff_new_deadline_reached");
    if let Some(ev_tok) = ev {
        let mut got = None;
        let r = t.process_events(Readiness::EMPTY, ev_tok, |dl, _| { got = Some(dl); TimeoutAction::Drop });
        assert!(got == Some(d1), "C05.upd.event_is_new_deadline");
        std::mem::forget(r);
    }
    assert!(collect(&poll, now).is_none(), "C05.upd.old_arming_is_gone");
    kani::cover!(d1 <= now && now < d0);
    std::mem::forget(t); std::mem::forget(poll);
}

/// The in-flight case: the timer's expired event has been collected into the batch, then
/// another callback of the same dispatch re-arms the timer (set_deadline + update, or
/// disable + enable) before the event is delivered.  The re-armed timer must not fire before
/// its new deadline.
#[kani::proof]
#[kani::stub(std::time::Instant::now, v_now)]
#[kani::unwind(3)]
fn k_c05_timer_rearm_inflight() {
    let mut poll = match Poll::new() { Ok(p) => p, Err(e) => { std::mem::forget(e); return; } };
    let tk = TokenInner::from(kani::any::<usize>()).forget_sub_id();
    let d0 = any_s();
    let mut t = Timer::from_deadline(d0);
    assert!(v_ok!(t.register(&mut poll, &mut TokenFactory::new(tk))), "C05.inf.register_ok");
    let now = any_s();
    let ev = collect(&poll, now);
    if let Some(ev_tok) = ev {
        let d1 = any_s();
        t.set_deadline(d1);
        assert!(v_ok!(t.reregister(&mut poll, &mut TokenFactory::new(tk))), "C05.inf.reregister_ok");
        let mut fired: Option<Instant> = None;
        let r = t.process_events(Readiness::EMPTY, ev_tok, |dl, _| { fired = Some(dl); TimeoutAction::Drop });
        std::mem::forget(r);
        if let Some(dl) = fired { assert!(now >= dl, "C05.inf.stale_event_fires_rearmed_timer_early"); }
    }
    kani::cover!(ev.is_some());
    std::mem::forget(t); std::mem::forget(poll);
}
