// Engine K harnesses attached to src/sources/mod.rs
// (C09 algebra, C14/C15 lifecycle bookkeeping of DispatcherInner, C06/C08 re-entrant
//  unregister, C13 idle wrapper).
#![allow(unused, clippy::all)]
use super::*;
use crate::token::TokenInner;
include!("common.rs");

// ---------------------------------------------------------------- C09: PostAction algebra

#[kani::proof]
fn k_c09_bitor() {
    let a = v_any_action(); let b = v_any_action();
    let c = a | b;
    if a == b { assert!(c == a, "C09.pa.or_equal_is_identity"); }
    else { assert!(c == PostAction::Reregister, "C09.pa.or_different_is_reregister"); }
    let mut d = a; d |= b;
    assert!(d == c, "C09.pa.or_assign_agrees_with_or");
    kani::cover!(a == b && a == PostAction::Remove);
    kani::cover!(a != b);
}

// ---------------------------------------------------------------- C14 / C15: lifecycle set

/// A source that opted into lifecycle events and whose own register / reregister /
/// unregister fail on a symbolic switch.
struct LcMock { fail: bool, registered: bool, proto_error: bool }
impl EventSource for LcMock {
    type Event = (); type Metadata = (); type Ret = (); type Error = crate::Error;
    const NEEDS_EXTRA_LIFECYCLE_EVENTS: bool = true;
    fn process_events<F>(&mut self, _: Readiness, _: Token, _cb: F) -> Result<PostAction, crate::Error>
    where F: FnMut((), &mut ()) { Ok(PostAction::Continue) }
    fn register(&mut self, _: &mut Poll, _: &mut TokenFactory) -> crate::Result<()> {
        if self.registered { self.proto_error = true; }
        if self.fail { Err(crate::Error::InvalidToken) } else { self.registered = true; Ok(()) }
    }
    fn reregister(&mut self, _: &mut Poll, _: &mut TokenFactory) -> crate::Result<()> {
        if !self.registered { self.proto_error = true; }
        if self.fail { Err(crate::Error::InvalidToken) } else { Ok(()) }
    }
    fn unregister(&mut self, _: &mut Poll) -> crate::Result<()> {
        if !self.registered { self.proto_error = true; }
        if self.fail { Err(crate::Error::InvalidToken) } else { self.registered = false; Ok(()) }
    }
}
fn lc_noop(_: (), _: &mut (), _: &mut ()) {}
type LcDisp = RefCell<DispatcherInner<LcMock, fn((), &mut (), &mut ())>>;

/// how many entries of the set equal `rt` (set length <= 4 in these harnesses; no loop)
fn lc_count(set: &AdditionalLifecycleEventsSet, rt: RegistrationToken) -> usize {
    let v = &set.values;
    let mut n = 0;
    if v.len() > 0 && v[0] == rt { n += 1; }
    if v.len() > 1 && v[1] == rt { n += 1; }
    if v.len() > 2 && v[2] == rt { n += 1; }
    if v.len() > 3 && v[3] == rt { n += 1; }
    n
}

/// Inductive step for C14/C15.  Pre-state: ANY state satisfying the invariant
///   INV: the set holds `rt` exactly once iff (source registered and opted in); the other
///        entries (0..=2 tokens of other sources, symbolic, rt at a symbolic position) are
///        whatever they are.
/// One symbolic protocol step (register | reregister | unregister, each with a symbolic failure
/// of the source's own call).  Post: INV again, the other entries unchanged and in order, the
/// mock's own protocol respected.  The empty initial state satisfies INV, so by induction INV
/// holds after every history of such steps (update, disable, enable, removal, failed
/// registration are all sequences of these three calls on the erased dispatcher).
struct LcPre { poll: Poll, set: AdditionalLifecycleEventsSet, tok: TokenInner, rt: RegistrationToken,
    d: LcDisp, flag: bool, reg: bool, o1: RegistrationToken, o2: RegistrationToken, n_other: u8 }

fn lc_pre() -> Option<LcPre> { lc_pre_cfg(kani::any(), kani::any(), kani::any(), kani::any()) }

/// `flag`, `reg`, `n_other`, `pos` may be concrete (shape of the set concrete, token values,
/// operation and failure symbolic) or symbolic.
fn lc_pre_cfg(flag: bool, reg: bool, n_other: u8, pos: u8) -> Option<LcPre> {
    let poll = match Poll::new() { Ok(p) => p, Err(e) => { std::mem::forget(e); return None; } };
    // concrete capacity: pushes never reallocate (a realloc of symbolic size is a symbolic memcpy)
    let mut set = AdditionalLifecycleEventsSet { values: Vec::with_capacity(8) };
    let tok = TokenInner::from(kani::any::<usize>()).forget_sub_id();
    let rt = RegistrationToken::new(tok);
    let t1 = TokenInner::from(kani::any::<usize>()).forget_sub_id();
    let t2 = TokenInner::from(kani::any::<usize>()).forget_sub_id();
    kani::assume(!t1.same_source_as(tok) && !t2.same_source_as(tok) && !t1.same_source_as(t2));
    let o1 = RegistrationToken::new(t1); let o2 = RegistrationToken::new(t2);
    kani::assume(n_other <= 2);
    kani::assume(pos <= n_other);
    let mine = reg && flag;
    if mine && pos == 0 { set.values.push(rt); }
    if n_other >= 1 { set.values.push(o1); }
    if mine && pos == 1 { set.values.push(rt); }
    if n_other >= 2 { set.values.push(o2); }
    if mine && pos == 2 { set.values.push(rt); }
    let d: LcDisp = RefCell::new(DispatcherInner { source: LcMock { fail: false, registered: reg, proto_error: false },
        callback: lc_noop, needs_additional_lifecycle_events: flag });
    Some(LcPre { poll, set, tok, rt, d, flag, reg, o1, o2, n_other })
}

macro_rules! lc_step { ($p:ident, $disp:ident) => {{
    let op: u8 = kani::any();
    let fail: bool = kani::any();
    $p.d.borrow_mut().source.fail = fail;
    if op == 0 {
        if !$p.reg {
            // insertion or enable(): on failure the loop treats the source as not registered
            if v_ok!($disp.register(&mut $p.poll, &mut $p.set, &mut TokenFactory::new($p.tok))) { $p.reg = true; }
            assert!(fail != $p.reg, "C15.lc.register_result_matches_source");
        } else {
            // round 9 (seed C14-5): enable() on a source that IS enabled -- the public API allows it; an fd-backed source
            // then fails (EEXIST) and a source without an fd of its own succeeds. Either way the earlier registration stands,
            // so the source stays listed exactly once (the redundant call is the user's, not a protocol error of the loop).
            let ok = v_ok!($disp.register(&mut $p.poll, &mut $p.set, &mut TokenFactory::new($p.tok)));
            assert!(fail != ok, "C15.lc.register_result_matches_source");
            $p.d.borrow_mut().source.proto_error = false;
        }
    } else if op == 1 {
        if $p.reg { let _ok = v_ok!($disp.reregister(&mut $p.poll, &mut $p.set, &mut TokenFactory::new($p.tok))); }
    } else {
        if $p.reg { if v_ok!($disp.unregister(&mut $p.poll, &mut $p.set, $p.rt)) { $p.reg = false; } }
    }
    let n = lc_count(&$p.set, $p.rt);
    if $p.flag {
        if $p.reg { assert!(n == 1, "C14.lc.registered_source_listed_exactly_once"); }
        else { assert!(n == 0, "C14.lc.unregistered_source_not_listed"); }
    } else {
        assert!(n == 0, "C14.lc.non_lifecycle_source_never_listed");
    }
    assert!(lc_count(&$p.set, $p.o1) == ($p.n_other >= 1) as usize, "C14.lc.other_entry_untouched");
    assert!(lc_count(&$p.set, $p.o2) == ($p.n_other >= 2) as usize, "C14.lc.other_entry_untouched");
    assert!($p.set.values.len() == n + $p.n_other as usize, "C14.lc.no_foreign_entries");
    assert!(!$p.d.borrow().source.proto_error, "C14.lc.source_protocol_respected");
}} }

/// The shape of the pre-state (opted in?, registered?, number of foreign entries, position of
/// the own entry) is concrete per harness -- a Vec of symbolic length makes `retain` a symbolic
/// memmove that CBMC cannot bit-blast in memory -- and the family enumerates every shape with
/// <= 2 foreign entries; token values, the operation and the failure switch are symbolic.
macro_rules! lc_family { ($($name:ident: $flag:expr, $reg:expr, $n:expr, $pos:expr;)*) => { $(
    #[kani::proof]
    #[kani::unwind(3)]
    fn $name() {
        let Some(mut p) = lc_pre_cfg($flag, $reg, $n, $pos) else { return; };
        {
            let disp: &dyn EventDispatcher<()> = &p.d;
            lc_step!(p, disp);
        }
        kani::cover!(p.reg);
        kani::cover!(!p.reg);
        std::mem::forget(p);
    }
)* } }
lc_family! {
    k_c14_lc_f0r0_n0: false, false, 0, 0;
    k_c14_lc_f0r0_n1: false, false, 1, 0;
    k_c14_lc_f0r1_n0: false, true, 0, 0;
    k_c14_lc_f0r1_n1: false, true, 1, 0;
    k_c14_lc_f1r0_n0: true, false, 0, 0;
    k_c14_lc_f1r0_n1: true, false, 1, 0;
    k_c14_lc_f1r0_n2: true, false, 2, 0;
    k_c14_lc_f1r1_n0p0: true, true, 0, 0;
    k_c14_lc_f1r1_n1p0: true, true, 1, 0;
    k_c14_lc_f1r1_n1p1: true, true, 1, 1;
    k_c14_lc_f1r1_n2p0: true, true, 2, 0;
    k_c14_lc_f1r1_n2p1: true, true, 2, 1;
    k_c14_lc_f1r1_n2p2: true, true, 2, 2;
}

/// two consecutive steps (redundant given the induction; cross-checks that the invariant is
/// inductive, thorough tier)
macro_rules! lc_family2 { ($($name:ident: $flag:expr, $reg:expr, $n:expr, $pos:expr;)*) => { $(
    #[kani::proof]
    #[kani::unwind(3)]
    fn $name() {
        let Some(mut p) = lc_pre_cfg($flag, $reg, $n, $pos) else { return; };
        {
            let disp: &dyn EventDispatcher<()> = &p.d;
            lc_step!(p, disp);
            lc_step!(p, disp);
        }
        kani::cover!(p.reg);
        std::mem::forget(p);
    }
)* } }
lc_family2! {
    k_c14_lc2_f1r0_n1: true, false, 1, 0;
    k_c14_lc2_f1r1_n1p0: true, true, 1, 0;
    k_c14_lc2_f1r1_n1p1: true, true, 1, 1;
}

// ---------------------------------------------------------------- C06 / C08: re-entrancy

/// While the dispatcher is mutably borrowed (= its callback is running) `unregister` and
/// `reregister` report Ok(false) and touch neither the source nor the set; outside they
/// report Ok(true).
macro_rules! reent_family { ($($name:ident: $flag:expr, $pos:expr;)*) => { $(
#[kani::proof]
#[kani::unwind(3)]
fn $name() {
    let Some(mut p) = lc_pre_cfg($flag, true, 1, $pos) else { return; };
    let before = lc_count(&p.set, p.rt);
    let before_len = p.set.values.len();
    {
        let disp: &dyn EventDispatcher<()> = &p.d;
        {
            let guard = p.d.borrow_mut(); // what process_events holds while the callback runs
            let which: bool = kani::any();
            if which {
                let r = disp.unregister(&mut p.poll, &mut p.set, p.rt);
                match &r { Ok(b) => assert!(!*b, "C08.re.unregister_in_callback_is_deferred"), Err(_) => assert!(false, "C08.re.unregister_in_callback_no_error") }
                std::mem::forget(r);
            } else {
                let r = disp.reregister(&mut p.poll, &mut p.set, &mut TokenFactory::new(p.tok));
                match &r { Ok(b) => assert!(!*b, "C08.re.reregister_in_callback_is_deferred"), Err(_) => assert!(false, "C08.re.reregister_in_callback_no_error") }
                std::mem::forget(r);
            }
            assert!(guard.source.registered, "C08.re.source_untouched_while_borrowed");
            assert!(lc_count(&p.set, p.rt) == before && p.set.values.len() == before_len, "C08.re.set_untouched_while_borrowed");
            drop(guard);
        }
        let r = disp.unregister(&mut p.poll, &mut p.set, p.rt);
        match &r { Ok(b) => assert!(*b, "C08.re.unregister_outside_callback_is_done"), Err(_) => assert!(false, "C08.re.unregister_outside_no_error") }
        std::mem::forget(r);
    }
    assert!(!p.d.borrow().source.registered, "C06.re.unregister_reaches_source");
    assert!(lc_count(&p.set, p.rt) == 0, "C06.re.unregister_clears_entry");
    kani::cover!(true);
    std::mem::forget(p);
}
)* } }
reent_family! {
    k_c08_reentrant_defers_f1p0: true, 0;
    k_c08_reentrant_defers_f1p1: true, 1;
    k_c08_reentrant_defers_f0: false, 0;
}

// ---------------------------------------------------------------- C13: idle wrapper

/// IdleDispatcher for Option<F>: dispatch runs the closure iff it was not cancelled; cancel
/// empties it for good.
#[kani::proof]
fn k_c13_idle_option() {
    let mut runs: u8 = 0;
    let cancel_first: bool = kani::any();
    {
        let mut slot = Some(|_d: &mut ()| { runs += 1; });
        if cancel_first { CancellableIdle::cancel(&mut slot); }
        IdleDispatcher::dispatch(&mut slot, &mut ());
        let still = slot.is_some();
        assert!(still == !cancel_first, "C13.idle.cancel_empties_slot");
    }
    assert!(runs == if cancel_first { 0 } else { 1 }, "C13.idle.runs_iff_not_cancelled");
    kani::cover!(cancel_first);
    kani::cover!(!cancel_first);
}
