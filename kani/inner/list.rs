// Engine K harnesses attached to src/list.rs (C01, C06: slot lookup, slot reuse, dead tokens).
#![allow(unused, clippy::all)]
use super::*;
include!("common.rs");

/// A list of `N` slots, each with a symbolic generation and a symbolic occupied/vacant state
/// (the invariant of SourceList: slot i has id i; generation and occupancy are free).
/// Occupied slots hold an Rc<dyn EventDispatcher> of a trivial dispatcher.
struct NullDisp;
impl EventDispatcher<()> for NullDisp {
    fn process_events(&self, _: crate::Readiness, _: crate::Token, _: &mut ()) -> crate::Result<crate::PostAction> { Ok(crate::PostAction::Continue) }
    fn register(&self, _: &mut crate::Poll, _: &mut crate::AdditionalLifecycleEventsSet, _: &mut crate::TokenFactory) -> crate::Result<()> { Ok(()) }
    fn reregister(&self, _: &mut crate::Poll, _: &mut crate::AdditionalLifecycleEventsSet, _: &mut crate::TokenFactory) -> crate::Result<bool> { Ok(true) }
    fn unregister(&self, _: &mut crate::Poll, _: &mut crate::AdditionalLifecycleEventsSet, _: crate::RegistrationToken) -> crate::Result<bool> { Ok(true) }
    fn before_sleep(&self) -> crate::Result<Option<(crate::Readiness, crate::Token)>> { Ok(None) }
    fn before_handle_events(&self, _: crate::EventIterator<'_>) {}
}

fn slot(id: usize, gen: u16, occupied: bool) -> SourceEntry<'static, ()> {
    let token = TokenInner::from((id << 32) | ((gen as usize) << 16));
    SourceEntry { token, source: if occupied { Some(Rc::new(NullDisp) as Rc<dyn EventDispatcher<()>>) } else { None } }
}

/// get/get_mut on an arbitrary 3-slot list with an arbitrary 64-bit token:
/// Ok(entry) <=> id < len and generation matches, and the entry is slot[id]; sub-id ignored.
#[kani::proof]
#[kani::unwind(3)]
fn k_c01_list_get() {
    let g0: u16 = kani::any(); let g1: u16 = kani::any(); let g2: u16 = kani::any();
    let mut v = Vec::with_capacity(4);
    v.push(slot(0, g0, kani::any())); v.push(slot(1, g1, kani::any())); v.push(slot(2, g2, kani::any()));
    let mut l: SourceList<'static, ()> = SourceList { sources: v };
    let raw: usize = kani::any();
    let t = TokenInner::from(raw);
    let id = raw >> 32; let gen = ((raw >> 16) & 0xffff) as u16;
    let expect_ok = id < 3 && gen == (if id == 0 { g0 } else if id == 1 { g1 } else { g2 });
    {
        let r = l.get(t);
        match &r {
            Ok(e) => { assert!(expect_ok, "C01.list.get_ok_only_for_live_generation"); assert!(e.token.get_id() == id && e.token.same_source_as(t), "C01.list.get_returns_own_slot"); }
            Err(_) => { assert!(!expect_ok, "C01.list.get_err_only_for_dead_or_unknown"); }
        }
        std::mem::forget(r);
    }
    {
        let r = l.get_mut(t);
        match &r {
            Ok(e) => { assert!(expect_ok, "C01.list.get_mut_ok_only_for_live_generation"); assert!(e.token.get_id() == id && e.token.same_source_as(t), "C01.list.get_mut_returns_own_slot"); }
            Err(_) => { assert!(!expect_ok, "C01.list.get_mut_err_only_for_dead_or_unknown"); }
        }
        std::mem::forget(r);
    }
    kani::cover!(expect_ok);
    kani::cover!(!expect_ok && id < 3);
    std::mem::forget(l);
}

/// vacant_entry on a 2-slot list with symbolic generations and occupancy: reuses the LOWEST
/// vacant slot with generation+1 (mod 2^16) and sub-id 0, or appends slot `len` with
/// generation 0; no other slot changes; every token valid for the reused slot before is dead
/// afterwards (C06), the new token is live.
macro_rules! vacant_family { ($($name:ident: $o0:expr, $o1:expr;)*) => { $(
#[kani::proof]
#[kani::unwind(4)]
fn $name() {
    let g0: u16 = kani::any(); let g1: u16 = kani::any();
    let o0: bool = $o0; let o1: bool = $o1;
    let mut v = Vec::with_capacity(4);
    v.push(slot(0, g0, o0)); v.push(slot(1, g1, o1));
    let mut l: SourceList<'static, ()> = SourceList { sources: v };
    let new_tok = { let e = l.vacant_entry(); assert!(e.source.is_none(), "C06.list.vacant_entry_is_vacant"); e.token };
    let expect_id = if !o0 { 0 } else if !o1 { 1 } else { 2 };
    assert!(new_tok.get_id() == expect_id, "C01.list.lowest_vacant_slot_or_append");
    let raw: usize = new_tok.into();
    assert!(raw & 0xffff == 0, "C01.list.fresh_token_has_sub_id_zero");
    let new_gen = ((raw >> 16) & 0xffff) as u16;
    if expect_id == 0 { assert!(new_gen == g0.wrapping_add(1), "C06.list.reuse_bumps_generation"); }
    else if expect_id == 1 { assert!(new_gen == g1.wrapping_add(1), "C06.list.reuse_bumps_generation"); }
    else { assert!(new_gen == 0, "C01.list.appended_slot_starts_at_generation_zero"); assert!(l.sources.len() == 3, "C01.list.append_grows_by_one"); }
    // untouched slots keep generation and occupancy
    if expect_id != 0 { let e = &l.sources[0]; assert!(e.token == TokenInner::from((g0 as usize) << 16) && e.source.is_some() == o0, "C01.list.other_slot_untouched"); }
    if expect_id != 1 { let e = &l.sources[1]; assert!(e.token == TokenInner::from((1usize << 32) | ((g1 as usize) << 16)) && e.source.is_some() == o1, "C01.list.other_slot_untouched"); }
    // the token that was valid for the reused slot is dead now; the new one is live
    if expect_id < 2 {
        let old = TokenInner::from((expect_id << 32) | ((if expect_id == 0 { g0 } else { g1 } as usize) << 16) | (kani::any::<u16>() as usize));
        assert!(v_ok!(l.get(new_tok)), "C01.list.new_token_is_live");
        let r = l.get(old); let dead = r.is_err(); std::mem::forget(r);
        assert!(dead, "C06.list.old_token_dead_after_reuse");
    }
    kani::cover!(true);
    std::mem::forget(l);
}
)* } }
vacant_family! {
    k_c06_list_vacant_00: false, false;
    k_c06_list_vacant_01: false, true;
    k_c06_list_vacant_10: true, false;
    k_c06_list_vacant_11: true, true;
}
