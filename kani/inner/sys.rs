// Engine K harnesses attached to src/sys.rs
// (C02 mode/interest conversion and poller table, C12 timeout clamp, C20 TokenFactory,
//  C05/C02 expired timers in the batch, Instant layout self-test).
#![allow(unused, clippy::all)]
use super::*;
include!("common.rs");

// ---------------------------------------------------------------- self test of the clock model
#[kani::proof]
#[kani::stub(std::time::Instant::now, v_now)]
#[kani::unwind(3)]
fn k_selftest_instant_layout() {
    let (a, s, n) = v_any_instant(1, 1_000_000);
    let b = v_instant(s + 1, n);
    assert!(b > a, "SELF.instant_order");
    let d1 = b.duration_since(a);
    assert!(d1.as_secs() == 1 && d1.subsec_nanos() == 0, "SELF.instant_layout_seconds");
    let c = v_instant(s, 0);
    let d2 = a.duration_since(c);
    assert!(d2.as_secs() == 0 && d2.subsec_nanos() == n, "SELF.instant_layout_nanos");
    verif_world::w().now_s = s; verif_world::w().now_sub = n;
    assert!(Instant::now() == a, "SELF.now_is_stubbed");
    kani::cover!(true);
}

// ---------------------------------------------------------------- C02: cvt_mode / cvt_interest
fn any_mode() -> Mode { match kani::any::<u8>() { 0 => Mode::OneShot, 1 => Mode::Level, _ => Mode::Edge } }

#[kani::proof]
fn k_c02_cvt_mode() {
    let m = any_mode(); let sup: bool = kani::any();
    let p = cvt_mode(m, sup);
    if !sup { assert!(p == PollMode::Oneshot, "C02.cvt.no_level_support_means_oneshot"); }
    else {
        match m {
            Mode::OneShot => assert!(p == PollMode::Oneshot, "C02.cvt.oneshot"),
            Mode::Level => assert!(p == PollMode::Level, "C02.cvt.level"),
            Mode::Edge => assert!(p == PollMode::Edge, "C02.cvt.edge"),
        }
    }
    kani::cover!(sup);
}

#[kani::proof]
fn k_c02_cvt_interest() {
    let i = Interest { readable: kani::any(), writable: kani::any() };
    let raw: usize = kani::any();
    let tok = Token { inner: TokenInner::from(raw) };
    let ev = cvt_interest(i, tok);
    assert!(ev.key == raw, "C02.cvt.key_is_token");
    assert!(ev.readable == i.readable && ev.writable == i.writable, "C02.cvt.interest_passed_through");
    kani::cover!(true);
}

// ---------------------------------------------------------------- C20 / C01: TokenFactory
#[kani::proof]
fn k_c20_token_factory() {
    let raw: usize = kani::any();
    let start = TokenInner::from(raw);
    let mut f = TokenFactory::new(start);
    // TokenFactory::new forgets the sub id: the first token is (id, gen, 0)
    let t0 = f.token();
    let r0: usize = t0.inner.into();
    assert!(r0 == raw & !0xffff, "C20.fac.first_token_is_sub_zero_of_source");
    // from an arbitrary factory state (any sub id below the limit) token() returns the state
    // and advances it by one: n tokens are pairwise distinct by induction
    let sub: u16 = kani::any(); kani::assume(sub < 0xffff);
    let cur = TokenInner::from((raw & !0xffff) | sub as usize);
    f.next_token = cur;
    let t = f.token();
    assert!(t.inner == cur, "C20.fac.token_returns_current");
    let next: usize = f.next_token.into();
    let curr: usize = cur.into();
    assert!(next == curr + 1, "C20.fac.next_is_current_plus_one");
    assert!(f.next_token.same_source_as(start), "C20.fac.tokens_belong_to_source");
    assert!(f.registration_token() == crate::RegistrationToken::new(start.forget_sub_id()), "C20.fac.registration_token");
    kani::cover!(true);
}

/// an exhausted factory (the last of the 65536 sub-ids of the source reached) fails loudly instead of
/// handing out a token twice or wrapping around to an earlier one.  should_panic harness: Kani requires
/// that a panic is reachable; the runner additionally requires that no TAGGED assertion is among the
/// failed checks (vlib/kani.py), i.e. the only panic is calloop's own refusal.
#[kani::proof]
#[kani::should_panic]
fn k_c20_token_factory_exhaustion() {
    let raw: usize = kani::any();
    let mut f = TokenFactory::new(TokenInner::from(raw));
    f.next_token = TokenInner::from((raw & !0xffff) | 0xffff);
    let a = f.token();
    let b = f.token();
    // only reached if neither call refused:
    assert!(a != b, "C20.fac.exhausted_factory_hands_out_a_token_twice");
    assert!((usize::from(b.inner) & 0xffff) > (usize::from(a.inner) & 0xffff), "C20.fac.exhausted_factory_wraps_around");
    assert!(false, "C20.fac.unreachable");
}

// ---------------------------------------------------------------- C02 / C16: poller table
struct MFd(Raw);
impl AsFd for MFd { fn as_fd(&self) -> Borrowed<'_> { unsafe { Borrowed::borrow_raw(self.0) } } }
fn any_interest() -> Interest { Interest { readable: kani::any(), writable: kani::any() } }
fn pmode(m: Mode) -> verif_world::PMode { match m { Mode::OneShot => verif_world::PMode::Oneshot, Mode::Level => verif_world::PMode::Level, Mode::Edge => verif_world::PMode::Edge } }

/// Poll::register / reregister / unregister with symbolic interest, mode, token: afterwards the
/// modelled kernel table holds exactly (fd, interest, mode, key) / nothing.
#[kani::proof]
#[kani::unwind(2)]
fn k_c02_poll_table() {
    let poll = match Poll::new() { Ok(p) => p, Err(e) => { std::mem::forget(e); return; } };
    let fd = verif_world::alloc(verif_world::Kind::Plain).unwrap();
    let i = verif_world::idx(fd).unwrap();
    let (int1, m1, raw1) = (any_interest(), any_mode(), kani::any::<usize>());
    kani::assume(raw1 != usize::MAX);
    let ok = v_ok!(unsafe { poll.register(MFd(fd), int1, m1, Token { inner: TokenInner::from(raw1) }) });
    assert!(ok, "C02.tbl.register_ok");
    { let f = &verif_world::w().fds[i];
      assert!(f.reg && f.key == raw1 && f.want_r == int1.readable && f.want_w == int1.writable && f.mode == pmode(m1) && f.armed, "C02.tbl.register_records_interest_mode_key"); }
    // registering again fails and changes nothing
    let ok2 = v_ok!(unsafe { poll.register(MFd(fd), any_interest(), any_mode(), Token { inner: TokenInner::from(kani::any::<usize>()) }) });
    assert!(!ok2, "C16.tbl.double_register_rejected");
    { let f = &verif_world::w().fds[i]; assert!(f.reg && f.key == raw1 && f.want_r == int1.readable && f.want_w == int1.writable && f.mode == pmode(m1), "C16.tbl.failed_register_changes_nothing"); }
    let (int2, m2, raw2) = (any_interest(), any_mode(), kani::any::<usize>());
    kani::assume(raw2 != usize::MAX);
    let ok3 = v_ok!(poll.reregister(MFd(fd), int2, m2, Token { inner: TokenInner::from(raw2) }));
    assert!(ok3, "C02.tbl.reregister_ok");
    { let f = &verif_world::w().fds[i];
      assert!(f.reg && f.key == raw2 && f.want_r == int2.readable && f.want_w == int2.writable && f.mode == pmode(m2) && f.armed, "C02.tbl.reregister_replaces_interest_mode_key_and_rearms"); }
    let ok4 = v_ok!(poll.unregister(MFd(fd)));
    assert!(ok4, "C16.tbl.unregister_ok");
    assert!(!verif_world::w().fds[i].reg, "C16.tbl.unregister_removes_fd");
    let ok5 = v_ok!(poll.reregister(MFd(fd), int2, m2, Token { inner: TokenInner::from(raw2) }));
    assert!(!ok5 && !verif_world::w().fds[i].reg, "C16.tbl.reregister_of_unregistered_fd_fails");
    kani::cover!(true);
    std::mem::forget(poll);
}

/// One wait on the model poller after Poll::register: the event that comes back carries the
/// registered token, the fd's readiness restricted to the interest, per mode (C02).
#[kani::proof]
#[kani::stub(std::time::Instant::now, v_now)]
#[kani::unwind(3)]
fn k_c02_poll_reports_ready_fd() {
    let poll = match Poll::new() { Ok(p) => p, Err(e) => { std::mem::forget(e); return; } };
    let fd = verif_world::alloc(verif_world::Kind::Plain).unwrap();
    let i = verif_world::idx(fd).unwrap();
    let (int1, m1, raw1) = (any_interest(), any_mode(), kani::any::<usize>());
    kani::assume(raw1 != usize::MAX);
    let ok = v_ok!(unsafe { poll.register(MFd(fd), int1, m1, Token { inner: TokenInner::from(raw1) }) });
    assert!(ok, "C02.rep.register_ok");
    let (r, wr): (bool, bool) = (kani::any(), kani::any());
    verif_world::w().fds[i].readable = r; verif_world::w().fds[i].writable = wr;
    let expect = (int1.readable && r) || (int1.writable && wr);
    let res = poll.poll(Some(Duration::ZERO));
    match &res {
        Ok(evs) => {
            if expect {
                assert!(evs.len() == 1, "C02.rep.ready_fd_reported_once");
                let e = &evs[0];
                let k: usize = e.token.inner.into();
                assert!(k == raw1, "C01.rep.event_carries_registered_token");
                assert!(e.readiness.readable == (int1.readable && r) && e.readiness.writable == (int1.writable && wr), "C02.rep.readiness_is_fd_state_and_interest");
            } else { assert!(evs.len() == 0, "C01.rep.no_event_without_cause"); }
        }
        Err(_) => assert!(false, "C02.rep.poll_ok"),
    }
    std::mem::forget(res);
    // second wait without re-arming: level re-reports, oneshot and edge do not
    let res2 = poll.poll(Some(Duration::ZERO));
    match &res2 {
        Ok(evs) => {
            let again = expect && matches!(m1, Mode::Level);
            assert!(evs.len() == again as usize, "C02.rep.level_rereports_oneshot_edge_do_not");
        }
        Err(_) => assert!(false, "C02.rep.poll2_ok"),
    }
    std::mem::forget(res2);
    kani::cover!(expect);
    std::mem::forget(poll);
}

/// After a first report: an edge-triggered registration reports again after the readiness went away
/// and came back (a NEW transition), a one-shot registration reports again after Poll::reregister
/// (re-arming) and only then, and a level registration keeps reporting; the token of the latest
/// (re)registration is the one carried (C02, C01).
#[kani::proof]
#[kani::stub(std::time::Instant::now, v_now)]
#[kani::unwind(3)]
fn k_c02_rearm_and_new_transition() {
    let poll = match Poll::new() { Ok(p) => p, Err(e) => { std::mem::forget(e); return; } };
    let fd = verif_world::alloc(verif_world::Kind::Plain).unwrap();
    let i = verif_world::idx(fd).unwrap();
    let (m1, raw1, raw2) = (any_mode(), kani::any::<usize>(), kani::any::<usize>());
    kani::assume(raw1 != usize::MAX && raw2 != usize::MAX);
    let ok = v_ok!(unsafe { poll.register(MFd(fd), Interest::READ, m1, Token { inner: TokenInner::from(raw1) }) });
    assert!(ok, "C02.arm.register_ok");
    verif_world::w().fds[i].readable = true;
    let res = poll.poll(Some(Duration::ZERO));
    let n1 = match &res { Ok(evs) => evs.len(), Err(_) => 99 };
    assert!(n1 == 1, "C02.arm.first_report");
    std::mem::forget(res);
    let rearm: bool = kani::any();
    let blink: bool = kani::any();
    if blink {
        // readiness goes away (observed by a wait) and comes back
        verif_world::w().fds[i].readable = false;
        let r = poll.poll(Some(Duration::ZERO));
        let n = match &r { Ok(evs) => evs.len(), Err(_) => 99 };
        assert!(n == 0, "C01.arm.no_event_while_not_ready");
        std::mem::forget(r);
        verif_world::w().fds[i].readable = true;
    }
    if rearm {
        let ok = v_ok!(poll.reregister(MFd(fd), Interest::READ, m1, Token { inner: TokenInner::from(raw2) }));
        assert!(ok, "C02.arm.reregister_ok");
    }
    let res2 = poll.poll(Some(Duration::ZERO));
    match &res2 {
        Ok(evs) => {
            let expect = match m1 { Mode::Level => true, Mode::Edge => blink || rearm, Mode::OneShot => rearm };
            assert!(evs.len() == expect as usize, "C02.arm.report_iff_level_or_new_transition_or_rearmed");
            if expect {
                let k: usize = evs[0].token.inner.into();
                assert!(k == if rearm { raw2 } else { raw1 }, "C01.arm.event_carries_latest_token");
                assert!(evs[0].readiness.readable && !evs[0].readiness.writable, "C02.arm.readiness");
            }
        }
        Err(_) => assert!(false, "C02.arm.poll_ok"),
    }
    std::mem::forget(res2);
    kani::cover!(rearm && blink);
    std::mem::forget(poll);
}

// ---------------------------------------------------------------- C12: timeout clamp
fn add_ts(s: u64, n: u32, ds: u64, dn: u32) -> (u64, u32) {
    let mut s2 = s + ds; let mut n2 = n + dn;
    if n2 >= 1_000_000_000 { n2 -= 1_000_000_000; s2 += 1; }
    (s2, n2)
}

/// Poll::poll hands the poller min(user timeout, earliest deadline - now) (zero when already
/// expired, the user's timeout when no timer, the timer's when no timeout, None only when
/// neither) -- observed as the timeout the model poller was given and as the model clock
/// after a wait with nothing ready.
#[kani::proof]
#[kani::stub(std::time::Instant::now, v_now)]
#[kani::unwind(3)]
fn k_c12_timeout_clamp() {
    let poll = match Poll::new() { Ok(p) => p, Err(e) => { std::mem::forget(e); return; } };
    let (_, now_s, now_n) = v_any_instant(1, 1_000_000);
    verif_world::w().now_s = now_s; verif_world::w().now_sub = now_n;
    let has_timer: bool = kani::any();
    let (dl, dl_s, dl_n) = v_any_instant(1, 1_000_000);
    if has_timer { poll.timers.borrow_mut().insert(dl, Token { inner: TokenInner::from(0usize) }); }
    let has_to: bool = kani::any();
    let to_s: u64 = kani::any(); let to_n: u32 = kani::any();
    kani::assume(to_s < 1_000_000 && to_n < 1_000_000_000);
    let timeout = if has_to { Some(Duration::new(to_s, to_n)) } else { None };
    let r = poll.poll(timeout);
    let ok = r.is_ok();
    assert!(ok, "C12.clamp.poll_ok");
    let w = verif_world::w();
    let start = (now_s, now_n); let dlp = (dl_s, dl_n);
    let after_to = add_ts(now_s, now_n, to_s, to_n);
    let end = (w.now_s, w.now_sub);
    let timer_due = dlp <= start;
    assert!(w.waits == 1, "C12.clamp.exactly_one_wait");
    if has_timer && timer_due {
        assert!(w.last_wait == Some((0, 0)), "C12.clamp.expired_timer_means_zero_wait");
        assert!(end == start, "C12.clamp.expired_timer_never_sleeps");
    } else if has_timer && has_to {
        assert!(end == if after_to < dlp { after_to } else { dlp }, "C12.clamp.min_of_timeout_and_deadline");
        assert!(!w.blocked_forever, "C12.clamp.bounded_wait");
    } else if has_timer {
        assert!(end == dlp && !w.blocked_forever, "C12.clamp.no_timeout_waits_until_deadline");
    } else if has_to {
        assert!(w.last_wait == Some((to_s, to_n)), "C12.clamp.user_timeout_passed_unchanged");
        assert!(end == after_to, "C12.clamp.no_timer_waits_full_timeout");
    } else {
        assert!(w.last_wait.is_none() && w.blocked_forever, "C12.clamp.none_and_no_timer_waits_for_event");
    }
    if has_to && to_s == 0 && to_n == 0 { assert!(end == start && !w.blocked_forever, "C12.clamp.zero_timeout_never_blocks"); }
    // C05: a timer event is in the batch iff its deadline is at or before the clock after the wait
    match &r {
        Ok(evs) => {
            let fired = has_timer && dlp <= end;
            assert!(evs.len() == fired as usize, "C05.clamp.timer_event_iff_deadline_reached");
        }
        Err(_) => {}
    }
    kani::cover!(has_timer && has_to && !timer_due);
    kani::cover!(!has_timer && !has_to);
    std::mem::forget(r); std::mem::forget(poll);
}
