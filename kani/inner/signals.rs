// Engine K harnesses attached to src/sources/signals.rs (C19), against the env/nix model.
#![allow(unused, clippy::all)]
use super::*;
use crate::token::TokenInner;
include!("common.rs");

const SIGS: [Signal; 3] = [Signal::SIGUSR1, Signal::SIGUSR2, Signal::SIGTERM];
fn bit(s: Signal) -> u64 { 1u64 << (s as i32 as u32) }
const ALL3: u64 = (1 << 10) | (1 << 12) | (1 << 15);

/// a symbolic subset of the three signals, as slice + bit set
fn any_subset() -> ([Signal; 3], usize, u64) {
    let m: u8 = kani::any(); kani::assume(m < 8);
    let mut v = [Signal::SIGUSR1; 3]; let mut n = 0; let mut bits = 0u64;
    if m & 1 != 0 { v[n] = SIGS[0]; n += 1; bits |= bit(SIGS[0]); }
    if m & 2 != 0 { v[n] = SIGS[1]; n += 1; bits |= bit(SIGS[1]); }
    if m & 4 != 0 { v[n] = SIGS[2]; n += 1; bits |= bit(SIGS[2]); }
    (v, n, bits)
}

fn sfd_mask() -> u64 { verif_world::w().fds[0].sfd_mask }

/// After Signals::new(S) and ONE symbolic operation (add / remove / set with a symbolic subset):
/// the thread's blocked set, the signalfd mask and the configured set coincide; a signal that is
/// configured both before and after the operation and is PENDING is never delivered by its default
/// disposition in between (it stays pending for the source); dropping the source unblocks what it
/// had blocked.  (Only these three signals are ever touched.)
#[kani::proof]
#[kani::unwind(5)]
fn k_c19_mask_bookkeeping() {
    let (v0, n0, b0) = any_subset();
    let r = Signals::new(&v0[..n0]);
    let mut s = match r { Ok(s) => s, Err(e) => { std::mem::forget(e); return; } };
    let w = verif_world::w();
    assert!(w.sig_blocked == b0, "C19.sig.new_blocks_exactly_configured");
    assert!(sfd_mask() == b0, "C19.sig.new_signalfd_mask_is_configured");
    // the application may block a signal of its own (one the source never hears of) while the source lives
    const OTHER: u64 = 1 << 1; // SIGHUP
    let app_blocks_other: bool = kani::any();
    if app_blocks_other { w.sig_blocked |= OTHER; }
    let other = if app_blocks_other { OTHER } else { 0 };
    // some of the three signals are pending (sent to the thread while blocked or not)
    let pend: u64 = kani::any(); kani::assume(pend & !ALL3 == 0);
    // a signal that arrives while it is NOT blocked is handled by its default disposition at once
    w.sig_default_fired = 0;
    w.sig_pending = pend & b0;
    let (v1, n1, b1) = any_subset();
    let op: u8 = kani::any(); kani::assume(op < 3);
    let after = if op == 0 { let ok = v_ok!(s.add_signals(&v1[..n1])); assert!(ok, "C19.sig.add_ok"); b0 | b1 }
                else if op == 1 { let ok = v_ok!(s.remove_signals(&v1[..n1])); assert!(ok, "C19.sig.remove_ok"); b0 & !b1 }
                else { let ok = v_ok!(s.set_signals(&v1[..n1])); assert!(ok, "C19.sig.set_ok"); b1 };
    let w = verif_world::w();
    assert!(w.sig_blocked == after | other, "C19.sig.blocked_set_is_configured_set");
    assert!(sfd_mask() == after, "C19.sig.signalfd_mask_is_configured_set");
    assert!(s.mask.bits == after, "C19.sig.internal_mask_is_configured_set");
    // signals configured before and after keep their pending instance for the source
    let kept = b0 & after;
    assert!(w.sig_default_fired & kept == 0, "C19.sig.pending_signal_of_kept_set_lost_to_default_disposition");
    assert!(w.sig_pending & kept == pend & kept, "C19.sig.pending_signal_of_kept_set_stays_pending");
    drop(s);
    assert!(verif_world::w().sig_blocked & ALL3 == 0, "C19.sig.drop_unblocks_everything_configured");
    assert!(verif_world::w().sig_blocked == other, "C19.sig.drop_touches_only_the_sources_own_signals");
    kani::cover!(op == 2 && kept != 0 && pend & kept != 0);
    kani::cover!(op == 0);
    kani::cover!(op == 1);
}

/// process_events reports each pending configured signal exactly once with its number, leaves
/// signals outside the configured set alone, and stops when nothing is left.
#[kani::proof]
#[kani::unwind(5)]
fn k_c19_report_each_pending_once() {
    let mut poll = match Poll::new() { Ok(p) => p, Err(e) => { std::mem::forget(e); return; } };
    let (v0, n0, b0) = any_subset();
    let r = Signals::new(&v0[..n0]);
    let mut s = match r { Ok(s) => s, Err(e) => { std::mem::forget(e); return; } };
    let tok = TokenInner::from(0x0000_0001_0000_0000usize);
    assert!(v_ok!(s.register(&mut poll, &mut TokenFactory::new(tok))), "C19.rep.register_ok");
    let pend: u64 = kani::any(); kani::assume(pend & !ALL3 == 0);
    verif_world::w().sig_pending = pend;
    let mut seen: u64 = 0; let mut dup = false; let mut calls = 0u8;
    let r = s.process_events(Readiness { readable: true, writable: false, error: false }, Token { inner: tok }, |ev, _| {
        let b = bit(ev.signal());
        if seen & b != 0 { dup = true; }
        seen |= b; calls += 1;
    });
    assert!(r.is_ok(), "C19.rep.process_ok");
    std::mem::forget(r);
    assert!(!dup, "C19.rep.no_signal_reported_twice");
    assert!(seen == pend & b0, "C19.rep.exactly_the_pending_configured_signals");
    assert!(verif_world::w().sig_pending == pend & !b0, "C19.rep.unconfigured_signals_untouched");
    kani::cover!(calls == 3);
    kani::cover!(calls == 0 && pend != 0);
    std::mem::forget(s); std::mem::forget(poll);
}
