//! Stress scenarios for the ping protocol (C03): every ping that returned is followed by a callback
//! that started after it; no callback without a ping; close removes the source.
use calloop::ping::make_ping;
use calloop::EventLoop;
use std::sync::atomic::{AtomicU64, Ordering};
use std::sync::Arc;
use std::time::{Duration, Instant};

#[test]
fn pings_from_threads_are_never_lost() {
    let mut el: EventLoop<u64> = EventLoop::try_new().unwrap();
    let (ping, src) = make_ping().unwrap();
    el.handle().insert_source(src, |_, _, n| *n += 1).unwrap();
    let seq = Arc::new(AtomicU64::new(0)); // number of pings that have RETURNED
    let mut threads = vec![];
    for _ in 0..3 {
        let (p, s) = (ping.clone(), seq.clone());
        threads.push(std::thread::spawn(move || {
            for i in 0..3000u32 {
                p.ping();
                s.fetch_add(1, Ordering::SeqCst);
                if i % 7 == 0 { std::thread::yield_now(); }
            }
        }));
    }
    let mut cbs = 0u64;
    let deadline = Instant::now() + Duration::from_secs(20);
    let mut finished = false;
    while Instant::now() < deadline {
        let before = seq.load(Ordering::SeqCst);
        let cb_before = cbs;
        el.dispatch(Duration::from_millis(20), &mut cbs).unwrap();
        if threads.iter().all(|t| t.is_finished()) {
            if finished { break; }
            finished = true; // one more dispatch after everything returned
        }
        let _ = (before, cb_before);
    }
    for t in threads { t.join().unwrap(); }
    // all pings returned; whatever was pending must be delivered by ONE more dispatch, then silence
    let before = cbs;
    el.dispatch(Duration::from_millis(50), &mut cbs).unwrap();
    let _ = before;
    assert!(cbs >= 1, "no callback at all");
    let quiet = cbs;
    el.dispatch(Duration::from_millis(50), &mut cbs).unwrap();
    assert_eq!(cbs, quiet, "callback without a ping");
}

#[test]
fn ping_then_wait_is_delivered_each_time() {
    // sequential hand-shake: each ping must produce a callback in the next dispatch
    let mut el: EventLoop<u64> = EventLoop::try_new().unwrap();
    let (ping, src) = make_ping().unwrap();
    el.handle().insert_source(src, |_, _, n| *n += 1).unwrap();
    let p2 = ping.clone();
    let mut n = 0u64;
    for i in 1..=500u64 {
        if i % 2 == 0 { ping.ping(); } else { let p = p2.clone(); std::thread::spawn(move || p.ping()).join().unwrap(); }
        el.dispatch(Duration::from_secs(2), &mut n).unwrap();
        assert_eq!(n, i, "ping #{} was not delivered", i);
    }
}

#[test]
fn close_delivers_outstanding_ping_then_removes() {
    let mut el: EventLoop<u64> = EventLoop::try_new().unwrap();
    let (ping, src) = make_ping().unwrap();
    el.handle().insert_source(src, |_, _, n| *n += 1).unwrap();
    ping.ping();
    drop(ping);
    let mut n = 0u64;
    el.dispatch(Duration::from_millis(100), &mut n).unwrap();
    assert_eq!(n, 1, "outstanding ping delivered on close");
    let t = Instant::now();
    el.dispatch(Duration::from_millis(100), &mut n).unwrap();
    assert!(t.elapsed() >= Duration::from_millis(90), "a closed ping source keeps the loop spinning");
    assert_eq!(n, 1);
}

#[test]
fn ping_from_inside_the_callback_is_delivered() {
    // ping; dispatch { the callback pings again }; dispatch => the second callback must run
    let mut el: EventLoop<u64> = EventLoop::try_new().unwrap();
    let (ping, src) = make_ping().unwrap();
    let p2 = ping.clone();
    el.handle().insert_source(src, move |_, _, n| { *n += 1; if *n < 3 { p2.ping(); } }).unwrap();
    ping.ping();
    let mut n = 0u64;
    for _ in 0..4 { el.dispatch(Duration::from_millis(50), &mut n).unwrap(); }
    assert_eq!(n, 3, "a ping issued while the callback was running was swallowed");
}

#[test]
fn ping_from_another_thread_during_the_callback_is_delivered() {
    use std::sync::mpsc;
    let mut el: EventLoop<u64> = EventLoop::try_new().unwrap();
    let (ping, src) = make_ping().unwrap();
    let (req_tx, req_rx) = mpsc::channel::<()>();
    let (ack_tx, ack_rx) = mpsc::channel::<()>();
    let p2 = ping.clone();
    let th = std::thread::spawn(move || { while req_rx.recv().is_ok() { p2.ping(); let _ = ack_tx.send(()); } });
    el.handle().insert_source(src, move |_, _, n: &mut u64| {
        *n += 1;
        if *n < 3 { req_tx.send(()).unwrap(); ack_rx.recv_timeout(Duration::from_secs(2)).unwrap(); } // the other thread's ping() has returned
    }).unwrap();
    ping.ping();
    let mut n = 0u64;
    for _ in 0..4 { el.dispatch(Duration::from_millis(50), &mut n).unwrap(); }
    assert_eq!(n, 3, "a ping that returned while the callback was running got no callback of its own");
    drop(el);
    let _ = th;
}

/// the last handles dropped at the same moment from several threads: the close still reaches the source, which removes
/// itself (its token dies) -- for every one of many rounds
#[test]
fn concurrent_drop_of_the_last_handles_closes_the_source() {
    use std::sync::atomic::AtomicBool;
    let mut el: EventLoop<u32> = EventLoop::try_new().unwrap();
    let h = el.handle();
    for round in 0..20000 {
        let (ping, source) = make_ping().unwrap();
        let tok = h.insert_source(source, |_, _, n: &mut u32| *n += 1).unwrap();
        let go = Arc::new(AtomicBool::new(false));
        let ths: Vec<_> = (0..3).map(|_| {
            let (p, go) = (ping.clone(), go.clone());
            std::thread::spawn(move || { while !go.load(Ordering::Acquire) { std::hint::spin_loop(); } drop(p); })
        }).collect();
        drop(ping);
        go.store(true, Ordering::Release);
        for t in ths { t.join().unwrap(); }
        let mut n = 0;
        el.dispatch(Duration::from_millis(200), &mut n).unwrap();
        assert_eq!(n, 0, "round {}: a callback without a ping", round);
        assert!(matches!(h.enable(&tok), Err(calloop::Error::InvalidToken)), "round {}: every handle is gone but the source did not remove itself", round);
    }
}

/// round 9 (seed C03-5): the last handle goes away while the source is NOT registered (disabled, or not inserted yet) with
/// a ping outstanding; once the source is registered the outstanding ping is delivered, then the source removes itself
#[test]
fn an_outstanding_ping_and_the_close_survive_a_gap_in_the_registration() {
    for variant in 0..3u8 {
        let mut el: EventLoop<u64> = EventLoop::try_new().unwrap();
        let h = el.handle();
        let (ping, src) = make_ping().unwrap();
        let mut n = 0u64;
        let tok = if variant == 0 {
            ping.ping();
            drop(ping);                                        // pinged and closed before the insertion
            h.insert_source(src, |_, _, n| *n += 1).unwrap()
        } else {
            let tok = h.insert_source(src, |_, _, n| *n += 1).unwrap();
            h.disable(&tok).unwrap();
            ping.ping();
            if variant == 2 { let p2 = ping.clone(); drop(ping); p2.ping(); drop(p2); } else { drop(ping); }
            el.dispatch(Duration::ZERO, &mut n).unwrap();
            assert_eq!(n, 0, "variant {}: a disabled ping source fired", variant);
            h.enable(&tok).unwrap();
            tok
        };
        el.dispatch(Duration::from_millis(200), &mut n).unwrap();
        assert_eq!(n, 1, "variant {}: the outstanding ping was not delivered after the source was registered", variant);
        let t = Instant::now();
        el.dispatch(Duration::from_millis(50), &mut n).unwrap();
        assert_eq!(n, 1);
        assert!(t.elapsed() >= Duration::from_millis(40), "variant {}: the closed ping source keeps the loop spinning", variant);
        assert!(matches!(h.enable(&tok), Err(calloop::Error::InvalidToken)), "variant {}: the closed ping source did not remove itself", variant);
    }
}
