//! Stress scenarios for the executor protocol (C10): a future woken from another thread is polled
//! again (wakes are never lost); results exactly once; more than 1024 runnables are not stranded.
use calloop::futures::executor;
use calloop::EventLoop;
use std::future::Future;
use std::pin::Pin;
use std::sync::atomic::{AtomicU64, Ordering};
use std::sync::{Arc, Mutex};
use std::task::{Context, Poll, Waker};
use std::time::{Duration, Instant};

/// a future that needs `target` polls; after each poll a helper thread wakes it
struct Parked { polls: Arc<AtomicU64>, slot: Arc<Mutex<Option<Waker>>>, target: u64 }
impl Future for Parked {
    type Output = u64;
    fn poll(self: Pin<&mut Self>, cx: &mut Context<'_>) -> Poll<u64> {
        let n = self.polls.fetch_add(1, Ordering::SeqCst) + 1;
        if n >= self.target { return Poll::Ready(n); }
        *self.slot.lock().unwrap() = Some(cx.waker().clone());
        Poll::Pending
    }
}

#[test]
fn cross_thread_wakes_are_never_lost() {
    let budget = Duration::from_secs(std::env::var("P_EXEC_SECS").ok().and_then(|s| s.parse().ok()).unwrap_or(12));
    let start = Instant::now();
    while start.elapsed() < budget {
        let mut el: EventLoop<Vec<u64>> = EventLoop::try_new().unwrap();
        let (exec, sched) = executor::<u64>().unwrap();
        el.handle().insert_source(exec, |r, _, out: &mut Vec<u64>| out.push(r)).unwrap();
        let ntasks = 4;
        let target = 20_000u64;
        let mut polls = vec![];
        let mut helpers = vec![];
        let stop = Arc::new(AtomicU64::new(0));
        for _ in 0..ntasks {
            let p = Arc::new(AtomicU64::new(0));
            let slot: Arc<Mutex<Option<Waker>>> = Arc::new(Mutex::new(None));
            sched.schedule(Parked { polls: p.clone(), slot: slot.clone(), target }).unwrap();
            let st = stop.clone();
            helpers.push(std::thread::spawn(move || {
                while st.load(Ordering::SeqCst) == 0 {
                    let w = slot.lock().unwrap().take();
                    if let Some(w) = w { w.wake(); } else { std::hint::spin_loop(); }
                }
            }));
            polls.push(p);
        }
        let mut out = vec![];
        let mut last = (0u64, Instant::now());
        while out.len() < ntasks {
            el.dispatch(Duration::from_millis(100), &mut out).unwrap();
            let total: u64 = polls.iter().map(|p| p.load(Ordering::SeqCst)).sum();
            if total != last.0 { last = (total, Instant::now()); }
            if last.1.elapsed() > Duration::from_secs(2) {
                stop.store(1, Ordering::SeqCst);
                panic!("lost wake: no future was polled for 2 s although wakers were called ({} polls so far, {} finished)", total, out.len());
            }
        }
        stop.store(1, Ordering::SeqCst);
        for h in helpers { h.join().unwrap(); }
        assert_eq!(out.len(), ntasks, "each result exactly once");
    }
}

#[test]
fn more_than_one_batch_of_runnables() {
    let mut el: EventLoop<u64> = EventLoop::try_new().unwrap();
    let (exec, sched) = executor::<()>().unwrap();
    el.handle().insert_source(exec, |_, _, n: &mut u64| *n += 1).unwrap();
    for _ in 0..2500 { sched.schedule(async {}).unwrap(); }
    let mut n = 0;
    let t = Instant::now();
    while n < 2500 { el.dispatch(Duration::from_secs(1), &mut n).unwrap(); assert!(t.elapsed() < Duration::from_secs(10), "runnables stranded after the batch limit: {}", n); }
    assert_eq!(n, 2500);
}

#[test]
fn schedule_after_drop_is_an_error() {
    let (exec, sched) = executor::<()>().unwrap();
    drop(exec);
    assert!(sched.schedule(async {}).is_err());
}

/// schedule() from inside the executor's own callback, everything completes within that batch, an idle dispatch
/// follows, and then a further schedule(): its future must still be polled (the wake-up bookkeeping must not be left
/// in the "already notified" state by a dispatch that found nothing to do)
#[test]
fn schedule_after_a_batch_that_scheduled_from_its_callback_and_an_idle_dispatch() {
    use calloop::futures::executor;
    let mut el: EventLoop<Vec<u32>> = EventLoop::try_new().unwrap();
    let (exec, sched) = executor::<u32>().unwrap();
    let s2 = sched.clone();
    el.handle().insert_source(exec, move |v, _, got: &mut Vec<u32>| {
        got.push(v);
        if v == 1 { s2.schedule(async { 2 }).unwrap(); }
    }).unwrap();
    sched.schedule(async { 1 }).unwrap();
    let mut got = vec![];
    let t = Instant::now();
    while got.len() < 2 { el.dispatch(Duration::from_millis(50), &mut got).unwrap(); assert!(t.elapsed() < Duration::from_secs(3), "{:?}", got); }
    // idle dispatches: nothing is queued, nothing is active
    for _ in 0..3 { el.dispatch(Duration::from_millis(10), &mut got).unwrap(); }
    sched.schedule(async { 3 }).unwrap();
    let t = Instant::now();
    while got.len() < 3 { el.dispatch(Duration::from_millis(50), &mut got).unwrap(); assert!(t.elapsed() < Duration::from_secs(3), "a future scheduled after an idle dispatch was never polled: {:?}", got); }
    assert_eq!(got, vec![1, 2, 3]);
}
