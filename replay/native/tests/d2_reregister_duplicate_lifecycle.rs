//! D2 (C14): update() of a lifecycle source must not make before_sleep run twice per dispatch.
use calloop::{EventLoop, EventSource, Poll, PostAction, Readiness, Token, TokenFactory};
use std::cell::Cell;
use std::rc::Rc;
use std::time::Duration;

struct Lc(Rc<Cell<u32>>, Rc<Cell<u32>>);
impl EventSource for Lc {
    type Event = ();
    type Metadata = ();
    type Ret = ();
    type Error = std::io::Error;
    const NEEDS_EXTRA_LIFECYCLE_EVENTS: bool = true;
    fn process_events<F>(&mut self, _: Readiness, _: Token, _: F) -> Result<PostAction, Self::Error>
    where
        F: FnMut((), &mut ()),
    {
        Ok(PostAction::Continue)
    }
    fn register(&mut self, _: &mut Poll, _: &mut TokenFactory) -> calloop::Result<()> {
        Ok(())
    }
    fn reregister(&mut self, _: &mut Poll, _: &mut TokenFactory) -> calloop::Result<()> {
        Ok(())
    }
    fn unregister(&mut self, _: &mut Poll) -> calloop::Result<()> {
        Ok(())
    }
    fn before_sleep(&mut self) -> calloop::Result<Option<(Readiness, Token)>> {
        self.0.set(self.0.get() + 1);
        Ok(None)
    }
    fn before_handle_events(&mut self, _: calloop::EventIterator<'_>) {
        self.1.set(self.1.get() + 1);
    }
}

#[test]
fn d2_update_does_not_duplicate_lifecycle_calls() {
    let mut el: EventLoop<()> = EventLoop::try_new().unwrap();
    let (bs, bh) = (Rc::new(Cell::new(0)), Rc::new(Cell::new(0)));
    let tok = el.handle().insert_source(Lc(bs.clone(), bh.clone()), |_, _, _| {}).unwrap();
    el.handle().update(&tok).unwrap();
    el.handle().update(&tok).unwrap();
    el.dispatch(Duration::ZERO, &mut ()).unwrap();
    assert_eq!((bs.get(), bh.get()), (1, 1), "before_sleep/before_handle_events once per dispatch");
    el.handle().disable(&tok).unwrap();
    bs.set(0);
    bh.set(0);
    el.dispatch(Duration::ZERO, &mut ()).unwrap();
    assert_eq!((bs.get(), bh.get()), (0, 0), "a disabled source gets neither");
}
