//! D16 (C08, C06): LoopHandle::remove drops the removed source while it still holds the mutable borrow of the
//! source list. A source whose Drop comes back to the loop -- an executor holding a future that owns an Async
//! adapter (Async::drop frees its slot), a user source that removes a helper source in its Drop -- makes
//! remove() panic with "already borrowed".
use calloop::futures::executor;
use calloop::EventLoop;
use std::os::unix::net::UnixStream;
use std::time::Duration;

#[test]
fn removing_an_executor_whose_future_owns_an_async_adapter() {
    let mut el: EventLoop<()> = EventLoop::try_new().unwrap();
    let h = el.handle();
    let (exec, sched) = executor::<()>().unwrap();
    let tok = h.insert_source(exec, |_, _, _| {}).unwrap();
    let (a, _b) = UnixStream::pair().unwrap();
    let mut io = h.adapt_io(a).unwrap();
    sched.schedule(async move { io.readable().await; }).unwrap();
    el.dispatch(Duration::from_millis(20), &mut ()).unwrap(); // the future is polled and parked, owning `io`
    h.remove(tok); // drops the executor, its futures, and with them the adapter
    el.dispatch(Duration::from_millis(20), &mut ()).unwrap();
}

#[test]
fn removing_an_executor_from_inside_a_callback() {
    use calloop::ping::make_ping;
    let mut el: EventLoop<()> = EventLoop::try_new().unwrap();
    let h = el.handle();
    let (exec, sched) = executor::<()>().unwrap();
    let tok = h.insert_source(exec, |_, _, _| {}).unwrap();
    let (a, _b) = UnixStream::pair().unwrap();
    let mut io = h.adapt_io(a).unwrap();
    sched.schedule(async move { io.readable().await; }).unwrap();
    el.dispatch(Duration::from_millis(20), &mut ()).unwrap();
    let (ping, ps) = make_ping().unwrap();
    let h2 = h.clone();
    h.insert_source(ps, move |_, _, _| h2.remove(tok)).unwrap();
    ping.ping();
    el.dispatch(Duration::from_millis(50), &mut ()).unwrap();
    el.dispatch(Duration::from_millis(20), &mut ()).unwrap();
}

/// round 9 (seed C16-6): the removed source is dropped with NOTHING of the loop borrowed -- an Async adapter it owns (in its
/// callback, or in a future of an executor) takes its fd out of the poller in its Drop, which needs the poller
#[test]
fn an_adapter_owned_by_a_removed_source_releases_its_fd() {
    use calloop::ping::make_ping;
    let (a, _b) = UnixStream::pair().unwrap();
    let mut el: EventLoop<()> = EventLoop::try_new().unwrap();
    let h = el.handle();
    let adapter = h.adapt_io(&a).unwrap();
    let (_p, ps) = make_ping().unwrap();
    let tok = h.insert_source(ps, move |_, _, _| { let _keep = &adapter; }).unwrap();
    h.remove(tok);
    let again = h.adapt_io(&a).expect("the fd of an adapter dropped with its removed owner is still in the poller");
    drop(again);
    el.dispatch(Duration::from_millis(10), &mut ()).unwrap();
}

#[test]
fn an_adapter_owned_by_a_future_of_a_removed_executor_releases_its_fd() {
    use std::os::unix::io::{AsFd, AsRawFd, BorrowedFd};
    struct Shared(std::rc::Rc<UnixStream>);
    impl AsFd for Shared { fn as_fd(&self) -> BorrowedFd<'_> { self.0.as_fd() } }
    let (a, _b) = UnixStream::pair().unwrap();
    let a = std::rc::Rc::new(a);
    let mut el: EventLoop<()> = EventLoop::try_new().unwrap();
    let h = el.handle();
    let (exec, sched) = executor::<()>().unwrap();
    let tok = h.insert_source(exec, |_, _, _| {}).unwrap();
    let mut io = h.adapt_io(Shared(a.clone())).unwrap();
    sched.schedule(async move { io.readable().await; }).unwrap();
    el.dispatch(Duration::from_millis(20), &mut ()).unwrap();
    h.remove(tok);
    assert!(a.as_raw_fd() >= 0);
    let again = h.adapt_io(Shared(a.clone())).expect("the fd of an adapter dropped with the future of a removed executor is still in the poller");
    drop(again);
    el.dispatch(Duration::from_millis(10), &mut ()).unwrap();
}
