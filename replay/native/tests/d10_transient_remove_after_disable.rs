//! D10 (C18): after the child asked for Disable and was unregistered by the re-registration,
//! remove() / replace() followed by the owed re-registration must not unregister it again.
use calloop::ping::{make_ping, PingSource};
use calloop::transient::TransientSource;
use calloop::{Dispatcher, EventLoop, EventSource, Poll, PostAction, Readiness, Token, TokenFactory};
use std::time::Duration;

struct Disabling(PingSource, bool);
impl EventSource for Disabling {
    type Event = ();
    type Metadata = ();
    type Ret = ();
    type Error = Box<dyn std::error::Error + Sync + Send>;
    fn process_events<F>(&mut self, r: Readiness, t: Token, cb: F) -> Result<PostAction, Self::Error>
    where
        F: FnMut((), &mut ()),
    {
        self.0.process_events(r, t, cb)?;
        Ok(if self.1 { PostAction::Disable } else { PostAction::Continue })
    }
    fn register(&mut self, p: &mut Poll, f: &mut TokenFactory) -> calloop::Result<()> {
        self.0.register(p, f)
    }
    fn reregister(&mut self, p: &mut Poll, f: &mut TokenFactory) -> calloop::Result<()> {
        self.0.reregister(p, f)
    }
    fn unregister(&mut self, p: &mut Poll) -> calloop::Result<()> {
        self.0.unregister(p)
    }
}

fn setup() -> (EventLoop<'static, u32>, calloop::RegistrationToken, Dispatcher<'static, TransientSource<Disabling>, u32>) {
    let (pinger, ping) = make_ping().unwrap();
    let outer: TransientSource<_> = Disabling(ping, true).into();
    let mut el: EventLoop<u32> = EventLoop::try_new().unwrap();
    let disp = Dispatcher::new(outer, |_, _, n: &mut u32| *n += 1);
    let tok = el.handle().register_dispatcher(disp.clone()).unwrap();
    pinger.ping();
    let mut n = 0;
    el.dispatch(Duration::ZERO, &mut n).unwrap();
    assert_eq!(n, 1); // the child has asked for Disable and the loop has unregistered it
    std::mem::forget(pinger);
    (el, tok, disp)
}

#[test]
fn d10_remove_after_child_disable() {
    let (el, tok, disp) = setup();
    disp.as_source_mut().remove();
    el.handle().update(&tok).expect("the re-registration owed after remove()");
    assert!(disp.as_source_ref().is_none());
}

#[test]
fn d10_replace_after_child_disable() {
    let (mut el, tok, disp) = setup();
    let (p2, s2) = make_ping().unwrap();
    disp.as_source_mut().replace(Disabling(s2, false));
    el.handle().update(&tok).expect("the re-registration owed after replace()");
    p2.ping();
    let mut n = 0;
    el.dispatch(Duration::ZERO, &mut n).unwrap();
    assert_eq!(n, 1, "the replacement is live");
}
