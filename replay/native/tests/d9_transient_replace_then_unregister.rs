//! D9 (C18): replace() followed by a disable of the parent (instead of the re-registration)
//! must not unregister the replacement, which was never registered.
use calloop::ping::make_ping;
use calloop::transient::TransientSource;
use calloop::{Dispatcher, EventLoop};
use std::time::Duration;

#[test]
fn d9_replace_then_disable_parent() {
    let (_p1, s1) = make_ping().unwrap();
    let (p2, s2) = make_ping().unwrap();
    let outer: TransientSource<_> = s1.into();
    let mut el: EventLoop<bool> = EventLoop::try_new().unwrap();
    let disp = Dispatcher::new(outer, |_, _, fired: &mut bool| *fired = true);
    let tok = el.handle().register_dispatcher(disp.clone()).unwrap();
    disp.as_source_mut().replace(s2);
    el.handle().disable(&tok).expect("disable() of the parent right after replace()");
    el.handle().enable(&tok).expect("enable() afterwards");
    p2.ping();
    let mut fired = false;
    el.dispatch(Duration::ZERO, &mut fired).unwrap();
    assert!(fired, "the replacement is live after enable()");
}
