//! Re-entrancy scenarios (C08): every handle operation from inside source and idle callbacks.
use calloop::futures::executor;
use calloop::ping::make_ping;
use calloop::timer::{TimeoutAction, Timer};
use calloop::{EventLoop, LoopHandle, RegistrationToken};
use std::cell::Cell;
use std::os::unix::net::UnixStream;
use std::rc::Rc;
use std::time::Duration;

#[test]
fn all_handle_operations_from_a_source_callback() {
    let mut el: EventLoop<u32> = EventLoop::try_new().unwrap();
    let h: LoopHandle<u32> = el.handle();
    let (other_ping, other_src) = make_ping().unwrap();
    let other = h.insert_source(other_src, |_, _, n: &mut u32| *n += 100).unwrap();
    let (p, s) = make_ping().unwrap();
    let me: Rc<Cell<Option<RegistrationToken>>> = Rc::new(Cell::new(None));
    let (h2, me2) = (h.clone(), me.clone());
    let t = h.insert_source(s, move |_, _, n: &mut u32| {
        *n += 1;
        let own = me2.get().unwrap();
        // aimed at another source
        h2.disable(&other).unwrap();
        h2.enable(&other).unwrap();
        h2.update(&other).unwrap();
        // insertions
        let tk = h2.insert_source(Timer::from_duration(Duration::from_secs(100)), |_, _, _| TimeoutAction::Drop).unwrap();
        h2.remove(tk);
        h2.insert_idle(|n: &mut u32| *n += 10);
        let (a, _b) = UnixStream::pair().unwrap();
        let ad = h2.adapt_io(a).unwrap();
        drop(ad);
        let (ex, sched) = executor::<()>().unwrap();
        let te = h2.insert_source(ex, |_, _, _| {}).unwrap();
        sched.schedule(async {}).unwrap();
        h2.remove(te);
        // aimed at itself (deferred)
        h2.update(&own).unwrap();
        h2.disable(&own).unwrap();
    }).unwrap();
    me.set(Some(t));
    p.ping();
    let mut n = 0;
    el.dispatch(Duration::ZERO, &mut n).unwrap();
    assert_eq!(n, 11, "callback ran once and the idle it inserted ran in the same dispatch");
    // the self-directed disable took effect; the other source still works
    p.ping();
    other_ping.ping();
    el.dispatch(Duration::ZERO, &mut n).unwrap();
    assert_eq!(n, 111);
}

#[test]
fn self_remove_from_callback_and_from_idle() {
    let mut el: EventLoop<u32> = EventLoop::try_new().unwrap();
    let h = el.handle();
    let (p, s) = make_ping().unwrap();
    let me: Rc<Cell<Option<RegistrationToken>>> = Rc::new(Cell::new(None));
    let (h2, me2) = (h.clone(), me.clone());
    me.set(Some(h.insert_source(s, move |_, _, n: &mut u32| { *n += 1; h2.remove(me2.get().unwrap()); h2.remove(me2.get().unwrap()); }).unwrap()));
    p.ping();
    let mut n = 0;
    el.dispatch(Duration::ZERO, &mut n).unwrap();
    p.ping();
    el.dispatch(Duration::ZERO, &mut n).unwrap();
    assert_eq!(n, 1);
    let (p2, s2) = make_ping().unwrap();
    let t2 = h.insert_source(s2, |_, _, n: &mut u32| *n += 1).unwrap();
    let h3 = h.clone();
    h.insert_idle(move |_| { h3.disable(&t2).unwrap(); h3.enable(&t2).unwrap(); h3.remove(t2); });
    el.dispatch(Duration::ZERO, &mut n).unwrap();
    p2.ping();
    el.dispatch(Duration::ZERO, &mut n).unwrap();
    assert_eq!(n, 1);
}

#[test]
fn self_remove_is_final_whatever_the_callback_does_next() {
    use calloop::generic::Generic;
    use calloop::{Dispatcher, Interest, Mode, PostAction};
    use std::io::Write;
    // variant 0: remove(own) then return Reregister; 1: remove(own) then update(own); 2: remove(own) then disable(own)
    for variant in 0..3u8 {
        let mut el: EventLoop<u32> = EventLoop::try_new().unwrap();
        let h = el.handle();
        let (a, mut peer) = UnixStream::pair().unwrap();
        let me: Rc<Cell<Option<RegistrationToken>>> = Rc::new(Cell::new(None));
        let (h2, me2) = (h.clone(), me.clone());
        let disp = Dispatcher::new(Generic::new(a, Interest::READ, Mode::Level), move |_, _, n: &mut u32| {
            *n += 1;
            let own = me2.get().unwrap();
            h2.remove(own);
            match variant { 1 => { let _ = h2.update(&own); } 2 => { let _ = h2.disable(&own); } _ => {} }
            Ok(if variant == 0 { PostAction::Reregister } else { PostAction::Continue })
        });
        let tok = h.register_dispatcher(disp.clone()).unwrap();
        me.set(Some(tok));
        peer.write_all(b"x").unwrap(); // stays readable
        let mut n = 0;
        for _ in 0..3 { el.dispatch(Duration::from_millis(10), &mut n).unwrap(); }
        assert_eq!(n, 1, "variant {}: a source that removed itself was called again", variant);
        assert!(h.enable(&tok).is_err() && h.update(&tok).is_err() && h.disable(&tok).is_err(), "variant {}: the token of a removed source is still alive", variant);
        let _src = disp.into_source_inner(); // panics if the loop still holds the source
    }
}

/// two self-directed operations in one callback: update()/disable() of the running source (deferred) AND remove() of it.
/// Every call succeeds; the dispatch must succeed too and the source must be gone.
#[test]
fn self_update_or_disable_combined_with_self_remove() {
    use calloop::ping::make_ping;
    use calloop::{EventLoop, RegistrationToken};
    use std::cell::Cell;
    use std::rc::Rc;
    use std::time::Duration;
    for variant in 0..4u8 {
        let mut el: EventLoop<u32> = EventLoop::try_new().unwrap();
        let h = el.handle();
        let (ping, src) = make_ping().unwrap();
        let tokc: Rc<Cell<Option<RegistrationToken>>> = Rc::new(Cell::new(None));
        let (h2, t2) = (h.clone(), tokc.clone());
        let tok = h.insert_source(src, move |_, _, n: &mut u32| {
            *n += 1;
            let me = t2.get().unwrap();
            match variant {
                0 => { h2.update(&me).unwrap(); h2.remove(me); }
                1 => { h2.disable(&me).unwrap(); h2.remove(me); }
                2 => { h2.remove(me); assert!(h2.update(&me).is_err()); }
                _ => { h2.remove(me); assert!(h2.disable(&me).is_err()); }
            }
        }).unwrap();
        tokc.set(Some(tok));
        ping.ping();
        let mut n = 0;
        el.dispatch(Duration::from_millis(100), &mut n).expect("every handle call in the callback succeeded: the dispatch must not fail");
        assert_eq!(n, 1);
        ping.ping();
        el.dispatch(Duration::from_millis(30), &mut n).unwrap();
        assert_eq!(n, 1, "variant {}: the removed source fired again", variant);
        assert!(matches!(h.enable(&tok), Err(calloop::Error::InvalidToken)), "variant {}: the source is still inserted", variant);
    }
}

/// a deferred self-request survives further handle calls made from the same callback for OTHER sources
#[test]
fn a_deferred_self_disable_survives_operations_on_other_sources() {
    use calloop::ping::make_ping;
    use calloop::{EventLoop, RegistrationToken};
    use std::cell::Cell;
    use std::rc::Rc;
    use std::time::Duration;
    for variant in 0..3u8 {
        let mut el: EventLoop<u32> = EventLoop::try_new().unwrap();
        let h = el.handle();
        let (pa, sa) = make_ping().unwrap();
        let (_pb, sb) = make_ping().unwrap();
        let tb = h.insert_source(sb, |_, _, _| {}).unwrap();
        let ta: Rc<Cell<Option<RegistrationToken>>> = Rc::new(Cell::new(None));
        let (h2, ta2) = (h.clone(), ta.clone());
        ta.set(Some(h.insert_source(sa, move |_, _, n: &mut u32| {
            *n += 1;
            h2.disable(&ta2.get().unwrap()).unwrap();         // deferred: we are running
            match variant {                                   // ... and then something about another, idle source
                0 => h2.update(&tb).unwrap(),
                1 => { h2.disable(&tb).unwrap(); h2.enable(&tb).unwrap(); }
                _ => { let (_p, s) = make_ping().unwrap(); let t = h2.insert_source(s, |_, _, _| {}).unwrap(); h2.remove(t); }
            }
        }).unwrap()));
        pa.ping();
        let mut n = 0;
        el.dispatch(Duration::from_millis(100), &mut n).unwrap();
        assert_eq!(n, 1);
        pa.ping();
        el.dispatch(Duration::from_millis(30), &mut n).unwrap();
        assert_eq!(n, 1, "variant {}: a source that disabled itself from its callback was dispatched again", variant);
        h.enable(&ta.get().unwrap()).unwrap();
        el.dispatch(Duration::from_millis(100), &mut n).unwrap();
        assert_eq!(n, 2, "variant {}: the ping that arrived while disabled is delivered after enable()", variant);
    }
}

/// round 9 (seed C09-5): a source defers a disable/update of itself and then removes itself in the same callback; the
/// deferred request dies with it and is not applied to the next source that returns Continue (in the same or a later batch)
#[test]
fn a_deferred_request_of_a_self_removed_source_does_not_reach_another_source() {
    use calloop::ping::make_ping;
    use calloop::{EventLoop, RegistrationToken};
    use std::cell::Cell;
    use std::rc::Rc;
    use std::time::Duration;
    for variant in 0..4u8 {
        let mut el: EventLoop<u32> = EventLoop::try_new().unwrap();
        let h = el.handle();
        let (pa, sa) = make_ping().unwrap();
        let (pb, sb) = make_ping().unwrap();
        let ta: Rc<Cell<Option<RegistrationToken>>> = Rc::new(Cell::new(None));
        let (h2, ta2) = (h.clone(), ta.clone());
        ta.set(Some(h.insert_source(sa, move |_, _, _| {
            let me = ta2.get().unwrap();
            if variant & 1 == 0 { h2.disable(&me).unwrap(); } else { h2.update(&me).unwrap(); }
            h2.remove(me);
        }).unwrap()));
        let _tb = h.insert_source(sb, |_, _, n: &mut u32| *n += 1).unwrap();
        let mut n = 0;
        pa.ping();
        if variant & 2 != 0 { pb.ping(); }                    // B in the same batch as A, or only in a later one
        el.dispatch(Duration::from_millis(100), &mut n).unwrap();
        for round in 0..2 {
            pb.ping();
            el.dispatch(Duration::from_millis(100), &mut n).unwrap();
            assert_eq!(n, round + 1 + (variant >> 1) as u32, "variant {}: source B lost an event: it was disabled by the request source A deferred for itself", variant);
        }
    }
}
