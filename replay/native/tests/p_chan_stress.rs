//! Stress scenarios for the channel protocol (C04): exactly-once in-order delivery, one Closed after
//! the last sender is gone, no message left queued while the loop idles, for unbounded and bounded
//! (capacity >= 1) channels.  (The zero-capacity blocking send is d11_*.)
use calloop::channel::{channel, sync_channel, Event};
use calloop::EventLoop;
use std::time::{Duration, Instant};

#[derive(Default)]
struct Got { msgs: Vec<(u8, u32)>, closed: u32, after_closed: u32 }

fn drive(el: &mut EventLoop<Got>, got: &mut Got, expect: usize) {
    let start = Instant::now();
    let mut last = (0usize, Instant::now());
    while got.closed == 0 || got.msgs.len() < expect {
        el.dispatch(Duration::from_millis(200), got).unwrap();
        if got.msgs.len() != last.0 { last = (got.msgs.len(), Instant::now()); }
        assert!(last.1.elapsed() < Duration::from_secs(3), "no progress for 3 s: {} of {} messages, closed={} (a message is queued but nothing woke the loop)", got.msgs.len(), expect, got.closed);
        assert!(start.elapsed() < Duration::from_secs(60));
    }
    el.dispatch(Duration::from_millis(20), got).unwrap();
}

fn check(got: &Got, senders: u8, per: u32) {
    assert_eq!(got.closed, 1, "Closed exactly once");
    assert_eq!(got.after_closed, 0, "nothing after Closed");
    assert_eq!(got.msgs.len(), senders as usize * per as usize, "every message exactly once");
    for s in 0..senders {
        let seq: Vec<u32> = got.msgs.iter().filter(|m| m.0 == s).map(|m| m.1).collect();
        assert_eq!(seq, (0..per).collect::<Vec<_>>(), "messages of sender {} in send order", s);
    }
}

fn cb(ev: Event<(u8, u32)>, _: &mut (), got: &mut Got) {
    match ev {
        Event::Msg(m) => { if got.closed > 0 { got.after_closed += 1; } got.msgs.push(m) }
        Event::Closed => got.closed += 1,
    }
}

#[test]
fn unbounded_two_senders() {
    for _ in 0..5 {
        let mut el: EventLoop<Got> = EventLoop::try_new().unwrap();
        let (tx, rx) = channel::<(u8, u32)>();
        el.handle().insert_source(rx, cb).unwrap();
        let per = 3000;
        let ths: Vec<_> = (0..2u8).map(|s| { let tx = tx.clone(); std::thread::spawn(move || for i in 0..per { tx.send((s, i)).unwrap(); }) }).collect();
        drop(tx);
        let mut got = Got::default();
        drive(&mut el, &mut got, 2 * per as usize);
        for t in ths { t.join().unwrap(); }
        check(&got, 2, per);
    }
}

#[test]
fn bounded_blocking_send() {
    for cap in [1usize, 2, 3] {
        let mut el: EventLoop<Got> = EventLoop::try_new().unwrap();
        let (tx, rx) = sync_channel::<(u8, u32)>(cap);
        el.handle().insert_source(rx, cb).unwrap();
        let per = 1500;
        let ths: Vec<_> = (0..2u8).map(|s| { let tx = tx.clone(); std::thread::spawn(move || for i in 0..per { tx.send((s, i)).unwrap(); }) }).collect();
        drop(tx);
        let mut got = Got::default();
        drive(&mut el, &mut got, 2 * per as usize);
        for t in ths { t.join().unwrap(); }
        check(&got, 2, per);
    }
}

#[test]
fn more_messages_than_one_batch() {
    // 3000 messages queued before the first dispatch: the 1024-per-dispatch limit must not strand the rest
    let mut el: EventLoop<Got> = EventLoop::try_new().unwrap();
    let (tx, rx) = channel::<(u8, u32)>();
    el.handle().insert_source(rx, cb).unwrap();
    for i in 0..3000 { tx.send((0, i)).unwrap(); }
    drop(tx);
    let mut got = Got::default();
    drive(&mut el, &mut got, 3000);
    check(&got, 1, 3000);
}

#[test]
fn try_send_full_then_drain() {
    let mut el: EventLoop<Got> = EventLoop::try_new().unwrap();
    let (tx, rx) = sync_channel::<(u8, u32)>(1);
    el.handle().insert_source(rx, cb).unwrap();
    tx.try_send((0, 0)).unwrap();
    assert!(tx.try_send((0, 99)).is_err());
    let mut got = Got::default();
    el.dispatch(Duration::from_millis(100), &mut got).unwrap();
    assert_eq!(got.msgs, vec![(0, 0)]);
    tx.try_send((0, 1)).unwrap();
    drop(tx);
    drive(&mut el, &mut got, 2);
    check(&got, 1, 2);
}

#[test]
fn single_message_then_close_each_capacity() {
    for cap in [None, Some(1usize)] {
        let mut el: EventLoop<Got> = EventLoop::try_new().unwrap();
        let mut got = Got::default();
        match cap {
            None => { let (tx, rx) = channel(); el.handle().insert_source(rx, cb).unwrap(); tx.send((0, 0)).unwrap(); }
            Some(c) => { let (tx, rx) = sync_channel(c); el.handle().insert_source(rx, cb).unwrap(); tx.send((0, 0)).unwrap(); }
        }
        drive(&mut el, &mut got, 1);
        check(&got, 1, 1);
    }
}

#[test]
fn blocking_send_on_a_full_channel_is_delivered_without_further_traffic() {
    // the channel is full; a second thread blocks in send(); nothing else happens afterwards (no other
    // send, no drop): the blocked sender's message must still reach the loop
    for cap in [1usize, 2] {
        for _round in 0..25 {
            let mut el: EventLoop<Got> = EventLoop::try_new().unwrap();
            let (tx, rx) = sync_channel::<(u8, u32)>(cap);
            el.handle().insert_source(rx, cb).unwrap();
            for i in 0..cap as u32 { tx.send((0, i)).unwrap(); }
            let tx2 = tx.clone();
            let th = std::thread::spawn(move || { tx2.send((0, cap as u32)).unwrap(); tx2 }); // blocks: the channel is full
            std::thread::sleep(Duration::from_millis(5));
            let mut got = Got::default();
            let t = Instant::now();
            while got.msgs.len() < cap + 1 {
                el.dispatch(Duration::from_millis(50), &mut got).unwrap();
                assert!(t.elapsed() < Duration::from_secs(2), "capacity {}: the message of the blocked sender was left queued ({} of {} delivered)", cap, got.msgs.len(), cap + 1);
            }
            let keep = th.join().unwrap();
            assert_eq!(got.msgs.iter().map(|m| m.1).collect::<Vec<_>>(), (0..=cap as u32).collect::<Vec<_>>());
            assert_eq!(got.closed, 0);
            drop(keep);
            drop(tx);
        }
    }
}

#[test]
fn rendezvous_channel_reports_closed_and_is_removed() {
    // single-threaded and deterministic: capacity 0, the only sender is dropped before the first dispatch
    let mut el: EventLoop<Got> = EventLoop::try_new().unwrap();
    let (tx, rx) = sync_channel::<(u8, u32)>(0);
    el.handle().insert_source(rx, cb).unwrap();
    drop(tx);
    let mut got = Got::default();
    drive(&mut el, &mut got, 0);
    check(&got, 0, 0);
}

#[test]
fn rendezvous_channel_takes_the_message_of_a_sender_that_is_already_blocked() {
    // the sender is (almost certainly) parked in send() before the first dispatch: not the D11 window, which needs the
    // loop to look at the queue between try_send's wake-up and the blocking send
    for _round in 0..10 {
        let mut el: EventLoop<Got> = EventLoop::try_new().unwrap();
        let (tx, rx) = sync_channel::<(u8, u32)>(0);
        el.handle().insert_source(rx, cb).unwrap();
        let th = std::thread::spawn(move || { tx.send((0, 0)).unwrap(); });
        std::thread::sleep(Duration::from_millis(60));
        let mut got = Got::default();
        let t = Instant::now();
        while got.msgs.is_empty() {
            el.dispatch(Duration::from_millis(50), &mut got).unwrap();
            assert!(t.elapsed() < Duration::from_secs(2), "the message offered by a blocked sender was never taken");
        }
        th.join().unwrap();
        drive(&mut el, &mut got, 1);
        check(&got, 1, 1);
    }
}

#[test]
fn more_queued_messages_than_one_batch_are_all_delivered_without_further_wakeups() {
    // everything is queued before the first dispatch and nobody sends (or drops) afterwards: only the loop's own
    // wake-up can get it past the per-dispatch batch limit -- for the unbounded and for large bounded channels
    for cap in [None, Some(2048usize), Some(1500)] {
        let mut el: EventLoop<Got> = EventLoop::try_new().unwrap();
        let keep: Box<dyn std::any::Any> = match cap {
            None => { let (tx, rx) = channel(); el.handle().insert_source(rx, cb).unwrap(); for i in 0..1500 { tx.send((0, i)).unwrap(); } Box::new(tx) }
            Some(c) => { let (tx, rx) = sync_channel(c); el.handle().insert_source(rx, cb).unwrap(); for i in 0..1500 { tx.try_send((0, i)).unwrap(); } Box::new(tx) }
        };
        let mut got = Got::default();
        let t = Instant::now();
        while got.msgs.len() < 1500 {
            el.dispatch(Duration::from_millis(50), &mut got).unwrap();
            assert!(t.elapsed() < Duration::from_secs(3), "capacity {:?}: {} of 1500 delivered, the rest is queued without a pending wake-up", cap, got.msgs.len());
        }
        assert_eq!(got.msgs.iter().map(|m| m.1).collect::<Vec<_>>(), (0..1500).collect::<Vec<_>>());
        assert_eq!(got.closed, 0);
        drop(keep);
    }
}
