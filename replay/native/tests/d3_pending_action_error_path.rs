//! D3 / pa-2 scenarios (C09, C08): a deferred disable()/update() a source requests on itself is
//! applied to that source only and never carried over to another source or a later event --
//! whatever the source's processing returns (Continue, an explicit action, or an error).
use calloop::ping::{make_ping, Ping, PingSource};
use calloop::timer::{TimeoutAction, Timer};
use calloop::{EventLoop, EventSource, LoopHandle, Poll, PostAction, Readiness, RegistrationToken, Token, TokenFactory};
use std::cell::Cell;
use std::rc::Rc;
use std::time::Duration;

/// A ping-driven source whose callback may call handle.disable(own) and which then returns
/// what `mode` says.
struct Src { ping: PingSource, mode: u8 }
impl EventSource for Src {
    type Event = ();
    type Metadata = ();
    type Ret = ();
    type Error = Box<dyn std::error::Error + Sync + Send>;
    fn process_events<F>(&mut self, r: Readiness, t: Token, mut cb: F) -> Result<PostAction, Self::Error>
    where
        F: FnMut((), &mut ()),
    {
        self.ping.process_events(r, t, |_, _| cb((), &mut ()))?;
        match self.mode {
            0 => Ok(PostAction::Continue),
            1 => Ok(PostAction::Reregister),
            2 => Ok(PostAction::Remove),
            _ => Err("processing failed".into()),
        }
    }
    fn register(&mut self, p: &mut Poll, f: &mut TokenFactory) -> calloop::Result<()> { self.ping.register(p, f) }
    fn reregister(&mut self, p: &mut Poll, f: &mut TokenFactory) -> calloop::Result<()> { self.ping.reregister(p, f) }
    fn unregister(&mut self, p: &mut Poll) -> calloop::Result<()> { self.ping.unregister(p) }
}

struct World { el: EventLoop<'static, u32>, a_ping: Ping, b_ping: Ping }

/// source A: on its event asks `handle.disable(A)` (deferred: A is being dispatched) and then
/// returns per `mode`; source B: an innocent bystander counting its events.
fn world(mode: u8, deferred_update: bool) -> World {
    let el: EventLoop<u32> = EventLoop::try_new().unwrap();
    let h: LoopHandle<u32> = el.handle();
    let (a_ping, a_src) = make_ping().unwrap();
    let (b_ping, b_src) = make_ping().unwrap();
    let tok: Rc<Cell<Option<RegistrationToken>>> = Rc::new(Cell::new(None));
    let (h2, tok2) = (h.clone(), tok.clone());
    let t = h
        .insert_source(Src { ping: a_src, mode }, move |_, _, _| {
            let me = tok2.get().unwrap();
            if deferred_update { h2.update(&me).unwrap() } else { h2.disable(&me).unwrap() }
        })
        .unwrap();
    tok.set(Some(t));
    h.insert_source(b_src, |_, _, n: &mut u32| *n += 1).unwrap();
    World { el, a_ping, b_ping }
}

fn bystander_keeps_working(mode: u8, deferred_update: bool) {
    let mut w = world(mode, deferred_update);
    let mut n = 0u32;
    w.a_ping.ping();
    let r = w.el.dispatch(Duration::ZERO, &mut n);
    assert_eq!(r.is_err(), mode == 3, "only a processing error fails the dispatch");
    // B must be delivered every one of its pings afterwards
    for i in 1..=3 {
        w.b_ping.ping();
        w.el.dispatch(Duration::ZERO, &mut n).unwrap();
        assert_eq!(n, i, "bystander event {} (a stale deferred action was applied to it?)", i);
    }
}

#[test] fn deferred_disable_then_continue() { bystander_keeps_working(0, false) }
#[test] fn deferred_disable_then_reregister() { bystander_keeps_working(1, false) }
#[test] fn deferred_disable_then_remove() { bystander_keeps_working(2, false) }
#[test] fn deferred_disable_then_error() { bystander_keeps_working(3, false) }
#[test] fn deferred_update_then_remove() { bystander_keeps_working(2, true) }
#[test] fn deferred_update_then_error() { bystander_keeps_working(3, true) }

/// the deferred request itself takes effect on the asking source when it returns Continue
#[test]
fn deferred_disable_takes_effect() {
    let mut w = world(0, false);
    let mut n = 0u32;
    w.a_ping.ping();
    w.el.dispatch(Duration::ZERO, &mut n).unwrap();
    // A is disabled now: a further ping must not reach its callback (which would panic on
    // disable() of a disabled source only if it ran: count through a timer instead)
    w.a_ping.ping();
    w.el.dispatch(Duration::ZERO, &mut n).unwrap();
    assert_eq!(n, 0);
}

/// a timer callback that disables itself and returns Drop: explicit Remove wins, nothing leaks
#[test]
fn timer_self_disable_and_drop() {
    let mut el: EventLoop<u32> = EventLoop::try_new().unwrap();
    let h = el.handle();
    let tok: Rc<Cell<Option<RegistrationToken>>> = Rc::new(Cell::new(None));
    let (h2, tok2) = (h.clone(), tok.clone());
    let t = h.insert_source(Timer::immediate(), move |_, _, _| { h2.disable(&tok2.get().unwrap()).unwrap(); TimeoutAction::Drop }).unwrap();
    tok.set(Some(t));
    let (p, s) = make_ping().unwrap();
    h.insert_source(s, |_, _, n: &mut u32| *n += 1).unwrap();
    let mut n = 0;
    el.dispatch(Duration::ZERO, &mut n).unwrap();
    for i in 1..=2 { p.ping(); el.dispatch(Duration::ZERO, &mut n).unwrap(); assert_eq!(n, i); }
}

/// an explicit non-Continue return wins over the deferred request: a source that asks disable(own) but
/// returns Reregister stays enabled; one that returns Continue gets disabled
#[test]
fn explicit_reregister_wins_over_deferred_disable() {
    for (mode, expect) in [(1u8, 3u32), (0u8, 1u32)] {
        let mut el: EventLoop<u32> = EventLoop::try_new().unwrap();
        let h = el.handle();
        let (ping, src) = make_ping().unwrap();
        let tok: Rc<Cell<Option<RegistrationToken>>> = Rc::new(Cell::new(None));
        let (h2, t2) = (h.clone(), tok.clone());
        tok.set(Some(h.insert_source(Src { ping: src, mode }, move |_, _, n: &mut u32| { *n += 1; h2.disable(&t2.get().unwrap()).unwrap(); }).unwrap()));
        let mut n = 0;
        for _ in 0..3 { ping.ping(); el.dispatch(Duration::ZERO, &mut n).unwrap(); }
        assert_eq!(n, expect, "mode {}: explicit Reregister must win over the deferred disable; a Continue return lets the deferred disable take effect", mode);
    }
}

/// An explicit non-Continue return takes precedence over the deferred request: observed on the asking source itself.
/// `explicit`: 2 = Remove, 4 = Disable.
fn explicit_action_wins(explicit: u8, deferred_update: bool) {
    struct Src2 { ping: PingSource, explicit: u8 }
    impl EventSource for Src2 {
        type Event = ();
        type Metadata = ();
        type Ret = ();
        type Error = Box<dyn std::error::Error + Sync + Send>;
        fn process_events<F>(&mut self, r: Readiness, t: Token, mut cb: F) -> Result<PostAction, Self::Error> where F: FnMut((), &mut ()) {
            self.ping.process_events(r, t, |_, _| cb((), &mut ()))?;
            Ok(if self.explicit == 2 { PostAction::Remove } else { PostAction::Disable })
        }
        fn register(&mut self, p: &mut Poll, f: &mut TokenFactory) -> calloop::Result<()> { self.ping.register(p, f) }
        fn reregister(&mut self, p: &mut Poll, f: &mut TokenFactory) -> calloop::Result<()> { self.ping.reregister(p, f) }
        fn unregister(&mut self, p: &mut Poll) -> calloop::Result<()> { self.ping.unregister(p) }
    }
    let mut el: EventLoop<u32> = EventLoop::try_new().unwrap();
    let h = el.handle();
    let (ping, src) = make_ping().unwrap();
    let tok: Rc<Cell<Option<RegistrationToken>>> = Rc::new(Cell::new(None));
    let (h2, tok2) = (h.clone(), tok.clone());
    let t = h.insert_source(Src2 { ping: src, explicit }, move |_, _, n: &mut u32| {
        *n += 1;
        let me = tok2.get().unwrap();
        if deferred_update { h2.update(&me).unwrap() } else { h2.disable(&me).unwrap() }
    }).unwrap();
    tok.set(Some(t));
    let mut n = 0u32;
    ping.ping();
    el.dispatch(Duration::from_millis(50), &mut n).unwrap();
    assert_eq!(n, 1);
    // whatever was deferred, the explicit action was applied: the source no longer fires ...
    ping.ping();
    el.dispatch(Duration::from_millis(50), &mut n).unwrap();
    assert_eq!(n, 1, "the source fired again although it returned {}", if explicit == 2 { "Remove" } else { "Disable" });
    if explicit == 2 {
        // ... and is gone: its token is dead
        assert!(matches!(h.enable(&t), Err(calloop::Error::InvalidToken)), "a source that returned Remove is still inserted");
    } else {
        // ... and is merely disabled: enable() brings it back, with the ping that accumulated meanwhile
        h.enable(&t).expect("a source that returned Disable can be enabled again");
        el.dispatch(Duration::from_millis(50), &mut n).unwrap();
        assert_eq!(n, 2);
    }
}
#[test] fn explicit_remove_wins_over_deferred_disable() { explicit_action_wins(2, false) }
#[test] fn explicit_remove_wins_over_deferred_update() { explicit_action_wins(2, true) }
#[test] fn explicit_disable_wins_over_deferred_update() { explicit_action_wins(4, true) }
#[test] fn explicit_disable_with_deferred_disable() { explicit_action_wins(4, false) }
