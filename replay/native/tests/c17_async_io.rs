//! Async adapter scenarios (C17): byte-exact transfer for several chunkings, tasks woken, blocking
//! mode restored by drop and by into_inner.
use calloop::futures::executor;
use calloop::EventLoop;
use futures::io::{AsyncReadExt, AsyncWriteExt};
use rustix::fs::{fcntl_getfl, fcntl_setfl, OFlags};
use std::os::unix::net::UnixStream;
use std::time::{Duration, Instant};

#[test]
fn bytes_arrive_exactly_and_in_order_for_several_chunkings() {
    for (wchunk, rchunk) in [(1usize, 7usize), (13, 3), (4096, 1), (100_000, 977)] {
        let mut el: EventLoop<Option<Vec<u8>>> = EventLoop::try_new().unwrap();
        let h = el.handle();
        let (ex, sched) = executor::<Option<Vec<u8>>>().unwrap();
        h.insert_source(ex, |r, _, out: &mut Option<Vec<u8>>| if r.is_some() { *out = r }).unwrap();
        let (tx, rx) = UnixStream::pair().unwrap();
        let (mut tx, mut rx) = (h.adapt_io(tx).unwrap(), h.adapt_io(rx).unwrap());
        let data: Vec<u8> = (0..200_000u32).map(|i| (i * 7 + i / 251) as u8).collect();
        let d2 = data.clone();
        sched.schedule(async move { for c in d2.chunks(wchunk.max(1)) { tx.write_all(c).await.unwrap(); } tx.flush().await.unwrap(); drop(tx); None }).unwrap();
        sched.schedule(async move {
            let mut got = vec![];
            let mut buf = vec![0u8; rchunk];
            loop { let n = rx.read(&mut buf).await.unwrap(); if n == 0 { break; } got.extend_from_slice(&buf[..n]); }
            Some(got)
        }).unwrap();
        let mut out = None;
        let t = Instant::now();
        while out.is_none() { el.dispatch(Duration::from_millis(200), &mut out).unwrap(); assert!(t.elapsed() < Duration::from_secs(30), "a task waiting for readiness was never woken"); }
        assert!(out.unwrap() == data, "bytes read differ from bytes written (chunks {}/{})", wchunk, rchunk);
    }
}

#[test]
fn blocking_mode_is_restored_by_drop_and_into_inner() {
    let el: EventLoop<()> = EventLoop::try_new().unwrap();
    for initially_nonblocking in [false, true] {
        for via_into_inner in [false, true] {
            let (a, _b) = UnixStream::pair().unwrap();
            let keep = a.try_clone().unwrap(); // same open file description => same flags
            if initially_nonblocking { fcntl_setfl(&a, fcntl_getfl(&a).unwrap() | OFlags::NONBLOCK).unwrap(); }
            let ad = el.handle().adapt_io(a).unwrap();
            assert!(fcntl_getfl(&keep).unwrap().contains(OFlags::NONBLOCK), "the adapter makes the fd non-blocking");
            if via_into_inner { let a = ad.into_inner(); drop(a); } else { drop(ad); }
            assert_eq!(fcntl_getfl(&keep).unwrap().contains(OFlags::NONBLOCK), initially_nonblocking,
                "blocking mode after {} (initially non-blocking: {})", if via_into_inner { "into_inner" } else { "drop" }, initially_nonblocking);
        }
    }
}

#[test]
fn readable_and_writable_futures_complete() {
    let mut el: EventLoop<u32> = EventLoop::try_new().unwrap();
    let h = el.handle();
    let (ex, sched) = executor::<u32>().unwrap();
    h.insert_source(ex, |r, _, n: &mut u32| *n += r).unwrap();
    let (a, b) = UnixStream::pair().unwrap();
    let (mut a, mut b) = (h.adapt_io(a).unwrap(), h.adapt_io(b).unwrap());
    sched.schedule(async move { a.readable().await; let mut buf = [0u8; 4]; a.read_exact(&mut buf).await.unwrap(); assert_eq!(&buf, b"ping"); 1 }).unwrap();
    sched.schedule(async move { b.writable().await; b.write_all(b"ping").await.unwrap(); 10 }).unwrap();
    let mut n = 0;
    let t = Instant::now();
    while n != 11 { el.dispatch(Duration::from_millis(100), &mut n).unwrap(); assert!(t.elapsed() < Duration::from_secs(10)); }
}

/// a wait in one direction that is abandoned while pending must not keep a later wait in the OTHER direction
/// from being armed with the poller
#[test]
fn a_wait_in_the_other_direction_is_armed_after_an_abandoned_one() {
    use std::future::Future;
    use std::sync::atomic::{AtomicUsize, Ordering};
    use std::sync::Arc;
    use std::task::{Context, Poll, Wake, Waker};
    struct Flag(AtomicUsize);
    impl Wake for Flag { fn wake(self: Arc<Self>) { self.0.fetch_add(1, Ordering::SeqCst); } }
    let mut el: EventLoop<()> = EventLoop::try_new().unwrap();
    let (a, _peer) = UnixStream::pair().unwrap();
    let mut a = el.handle().adapt_io(a).unwrap();
    let (f1, f2) = (Arc::new(Flag(AtomicUsize::new(0))), Arc::new(Flag(AtomicUsize::new(0))));
    let (w1, w2) = (Waker::from(f1.clone()), Waker::from(f2.clone()));
    {
        // nothing to read: pending, armed for READ, then abandoned (a lost select!, a timeout, ...)
        let mut fut = Box::pin(a.readable());
        assert!(matches!(fut.as_mut().poll(&mut Context::from_waker(&w1)), Poll::Pending));
    }
    {
        // the socket IS writable, but the adapter has not seen any readiness yet: pending, must be armed for WRITE
        let mut fut = Box::pin(a.writable());
        assert!(matches!(fut.as_mut().poll(&mut Context::from_waker(&w2)), Poll::Pending));
    }
    let t = Instant::now();
    while f2.0.load(Ordering::SeqCst) == 0 {
        el.dispatch(Duration::from_millis(50), &mut ()).unwrap();
        assert!(t.elapsed() < Duration::from_secs(2), "the task waiting for writability was never woken");
    }
    assert_eq!(f1.0.load(Ordering::SeqCst), 0, "the abandoned waker was woken instead");
    let mut fut = Box::pin(a.writable());
    assert!(matches!(fut.as_mut().poll(&mut Context::from_waker(&w2)), Poll::Ready(())));
}

/// a zero-length chunk is a legitimate write: it completes (with 0) and what follows is still sent
#[test]
fn a_chunking_with_an_empty_write_chunk_completes() {
    let mut el: EventLoop<Option<Vec<u8>>> = EventLoop::try_new().unwrap();
    let h = el.handle();
    let (ex, sched) = executor::<Option<Vec<u8>>>().unwrap();
    h.insert_source(ex, |r, _, out: &mut Option<Vec<u8>>| if r.is_some() { *out = r }).unwrap();
    let (tx, rx) = UnixStream::pair().unwrap();
    let (mut tx, mut rx) = (h.adapt_io(tx).unwrap(), h.adapt_io(rx).unwrap());
    sched.schedule(async move {
        tx.write_all(b"ab").await.unwrap();
        assert_eq!(tx.write(&[]).await.unwrap(), 0);
        tx.write_all(b"cd").await.unwrap();
        drop(tx);
        None
    }).unwrap();
    sched.schedule(async move { let mut got = vec![]; rx.read_to_end(&mut got).await.unwrap(); Some(got) }).unwrap();
    let mut out = None;
    let t = Instant::now();
    while out.is_none() { el.dispatch(Duration::from_millis(100), &mut out).unwrap(); assert!(t.elapsed() < Duration::from_secs(3), "the writer task never completed after an empty chunk"); }
    assert_eq!(out.unwrap(), b"abcd");
}

/// a vectored write that has to wait for room in the socket buffer is woken when the peer drains it (the peer sends
/// nothing back and does not close, so only writability can wake the writer)
#[test]
fn a_blocked_vectored_write_is_woken_when_the_peer_drains_the_socket() {
    use std::io::IoSlice;
    let mut el: EventLoop<Option<Vec<u8>>> = EventLoop::try_new().unwrap();
    let h = el.handle();
    let (ex, sched) = executor::<Option<Vec<u8>>>().unwrap();
    h.insert_source(ex, |r, _, out: &mut Option<Vec<u8>>| if r.is_some() { *out = r }).unwrap();
    let (tx, rx) = UnixStream::pair().unwrap();
    let (mut tx, mut rx) = (h.adapt_io(tx).unwrap(), h.adapt_io(rx).unwrap());
    const N: usize = 1 << 20;
    let data: Vec<u8> = (0..N as u32).map(|i| (i * 31 + i / 977) as u8).collect();
    let d2 = data.clone();
    sched.schedule(async move {
        let mut off = 0;
        while off < d2.len() {
            let mid = (off + 1000).min(d2.len());
            let end = (off + 70_000).min(d2.len());
            off += tx.write_vectored(&[IoSlice::new(&d2[off..mid]), IoSlice::new(&d2[mid..end])]).await.unwrap();
        }
        // keep tx open until the reader has everything: nothing but writability may wake this task
        futures::future::pending::<()>().await;
        None
    }).unwrap();
    sched.schedule(async move {
        let mut got = vec![0u8; N];
        rx.read_exact(&mut got).await.unwrap();
        Some(got)
    }).unwrap();
    let mut out = None;
    let t = Instant::now();
    while out.is_none() { el.dispatch(Duration::from_millis(100), &mut out).unwrap(); assert!(t.elapsed() < Duration::from_secs(10), "the writer was never woken after the reader drained the socket buffer"); }
    assert!(out.unwrap() == data);
}

/// round 9 (seed C17-6): gathered writes of several slices while the socket buffer fills up in the middle of a call and the
/// peer drains between dispatches: the bytes the writer was told were accepted are exactly the bytes the peer receives
#[test]
fn gathered_writes_stay_byte_exact_when_the_socket_fills_up_mid_call() {
    use std::cell::Cell;
    use std::io::{IoSlice, Read};
    use std::rc::Rc;
    const TOTAL: usize = 2 * 1024 * 1024;
    let mut el: EventLoop<()> = EventLoop::try_new().unwrap();
    let h = el.handle();
    let (ex, sched) = executor::<()>().unwrap();
    h.insert_source(ex, |(), _, _| {}).unwrap();
    let (tx, mut rx) = UnixStream::pair().unwrap();
    rx.set_nonblocking(true).unwrap();
    let mut tx = h.adapt_io(tx).unwrap();
    let data: Rc<Vec<u8>> = Rc::new((0..TOTAL).map(|i| ((i % 251) as u8) ^ ((i / 251) as u8)).collect());
    let done = Rc::new(Cell::new(false));
    let (d2, done2) = (data.clone(), done.clone());
    sched.schedule(async move {
        let mut off = 0;
        while off < d2.len() {
            let end = (off + 3000).min(d2.len());
            let slices: Vec<IoSlice> = d2[off..end].chunks(600).map(IoSlice::new).collect();
            let n = tx.write_vectored(&slices).await.unwrap();
            assert!(n > 0 && n <= end - off);
            off += n;
        }
        done2.set(true);
    }).unwrap();
    let mut got = Vec::with_capacity(TOTAL);
    let mut chunk = vec![0u8; 64 * 1024];
    let t = Instant::now();
    loop {
        el.dispatch(Some(Duration::from_millis(20)), &mut ()).unwrap();
        loop {
            match rx.read(&mut chunk) {
                Ok(0) => break,
                Ok(n) => got.extend_from_slice(&chunk[..n]),
                Err(e) if e.kind() == std::io::ErrorKind::WouldBlock => break,
                Err(e) => panic!("read failed: {e}"),
            }
        }
        if done.get() { break; }
        assert!(t.elapsed() < Duration::from_secs(15), "the writer task never completed");
    }
    assert_eq!(got.len(), data.len(), "the peer received a different number of bytes than the writer was told were accepted");
    assert!(got == *data, "the byte stream was altered in transit");
}
