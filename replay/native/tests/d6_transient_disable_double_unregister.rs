//! D6 (C18): a TransientSource whose child asked for PostAction::Disable must not unregister
//! the (already unregistered) child again when the parent is updated or disabled later.
use calloop::ping::{make_ping, PingSource};
use calloop::transient::TransientSource;
use calloop::{EventLoop, EventSource, Poll, PostAction, Readiness, Token, TokenFactory};
use std::time::Duration;

struct Disabling(PingSource);
impl EventSource for Disabling {
    type Event = ();
    type Metadata = ();
    type Ret = ();
    type Error = Box<dyn std::error::Error + Sync + Send>;
    fn process_events<F>(&mut self, r: Readiness, t: Token, cb: F) -> Result<PostAction, Self::Error>
    where
        F: FnMut((), &mut ()),
    {
        self.0.process_events(r, t, cb)?;
        Ok(PostAction::Disable)
    }
    fn register(&mut self, p: &mut Poll, f: &mut TokenFactory) -> calloop::Result<()> {
        self.0.register(p, f)
    }
    fn reregister(&mut self, p: &mut Poll, f: &mut TokenFactory) -> calloop::Result<()> {
        self.0.reregister(p, f)
    }
    fn unregister(&mut self, p: &mut Poll) -> calloop::Result<()> {
        self.0.unregister(p)
    }
}

fn setup() -> (EventLoop<'static, bool>, calloop::RegistrationToken, calloop::ping::Ping) {
    let (pinger, ping) = make_ping().unwrap();
    let outer: TransientSource<_> = Disabling(ping).into();
    let mut el: EventLoop<bool> = EventLoop::try_new().unwrap();
    let tok = el.handle().insert_source(outer, |_, _, fired| *fired = true).unwrap();
    pinger.ping();
    let mut fired = false;
    el.dispatch(Duration::ZERO, &mut fired).unwrap();
    assert!(fired); // the child has now asked for Disable and has been unregistered by the loop
    (el, tok, pinger)
}

#[test]
fn d6_update_after_child_disable() {
    let (el, tok, _p) = setup();
    el.handle().update(&tok).expect("update() of the parent after the child disabled itself");
}

#[test]
fn d6_disable_after_child_disable() {
    let (mut el, tok, p) = setup();
    el.handle().disable(&tok).expect("disable() of the parent after the child disabled itself");
    // and enabling the parent brings the child back
    el.handle().enable(&tok).unwrap();
    p.ping();
    let mut fired = false;
    el.dispatch(Duration::ZERO, &mut fired).unwrap();
    assert!(fired);
}
