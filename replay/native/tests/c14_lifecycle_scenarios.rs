//! Lifecycle scenarios (C14, C07, C16): a composite lifecycle source with two sub-tokens; the hooks
//! run once per dispatch while enabled, never after a disable/remove requested through either
//! sub-source; the iterator carries the real events only; synthetic events are delivered.
use calloop::ping::{make_ping, Ping, PingSource};
use calloop::{EventIterator, EventLoop, EventSource, Poll, PostAction, Readiness, RegistrationToken, Token, TokenFactory};
use std::cell::{Cell, RefCell};
use std::rc::Rc;
use std::time::Duration;

#[derive(Default)]
struct Stats { before_sleep: u32, before_handle: u32, real_seen_in_iter: u32, events: Vec<u8>, synthetic_pending: bool }

struct Composite { a: PingSource, b: PingSource, ret_b: PostAction, stats: Rc<RefCell<Stats>>, tok_a: Option<Token> }
impl EventSource for Composite {
    type Event = u8;
    type Metadata = ();
    type Ret = ();
    type Error = Box<dyn std::error::Error + Sync + Send>;
    const NEEDS_EXTRA_LIFECYCLE_EVENTS: bool = true;
    fn process_events<F>(&mut self, r: Readiness, t: Token, mut cb: F) -> Result<PostAction, Self::Error>
    where
        F: FnMut(u8, &mut ()),
    {
        if r.readable == false && r.writable == false && self.tok_a == Some(t) { cb(9, &mut ()); return Ok(PostAction::Continue); } // synthetic
        let mut hit_b = false;
        self.a.process_events(r, t, |_, _| cb(1, &mut ()))?;
        self.b.process_events(r, t, |_, _| { hit_b = true; cb(2, &mut ()) })?;
        Ok(if hit_b { self.ret_b } else { PostAction::Continue })
    }
    fn register(&mut self, p: &mut Poll, f: &mut TokenFactory) -> calloop::Result<()> {
        self.a.register(p, f)?;
        self.b.register(p, f)
    }
    fn reregister(&mut self, p: &mut Poll, f: &mut TokenFactory) -> calloop::Result<()> { self.a.reregister(p, f)?; self.b.reregister(p, f) }
    fn unregister(&mut self, p: &mut Poll) -> calloop::Result<()> { self.a.unregister(p)?; self.b.unregister(p) }
    fn before_sleep(&mut self) -> calloop::Result<Option<(Readiness, Token)>> {
        let mut s = self.stats.borrow_mut();
        s.before_sleep += 1;
        Ok(None)
    }
    fn before_handle_events(&mut self, events: EventIterator<'_>) {
        let mut s = self.stats.borrow_mut();
        s.before_handle += 1;
        s.real_seen_in_iter += events.count() as u32;
    }
}

struct W { el: EventLoop<'static, Vec<u8>>, pa: Ping, pb: Ping, stats: Rc<RefCell<Stats>>, tok: RegistrationToken }

fn world(ret_b: PostAction, self_action: Option<u8>) -> W {
    let el: EventLoop<Vec<u8>> = EventLoop::try_new().unwrap();
    let (pa, a) = make_ping().unwrap();
    let (pb, b) = make_ping().unwrap();
    let stats = Rc::new(RefCell::new(Stats::default()));
    let tokc: Rc<Cell<Option<RegistrationToken>>> = Rc::new(Cell::new(None));
    let (h, t2) = (el.handle(), tokc.clone());
    let tok = el.handle().insert_source(Composite { a, b, ret_b, stats: stats.clone(), tok_a: None }, move |ev, _, log: &mut Vec<u8>| {
        log.push(ev);
        if ev == 2 {
            match self_action { Some(0) => h.disable(&t2.get().unwrap()).unwrap(), Some(1) => h.remove(t2.get().unwrap()), _ => {} }
        }
    }).unwrap();
    tokc.set(Some(tok));
    W { el, pa, pb, stats, tok }
}

fn hooks_stop_after(ret_b: PostAction, self_action: Option<u8>, what: &str) {
    let mut w = world(ret_b, self_action);
    let mut log = vec![];
    w.pa.ping();
    w.el.dispatch(Duration::ZERO, &mut log).unwrap();
    assert_eq!(log, vec![1]);
    assert_eq!((w.stats.borrow().before_sleep, w.stats.borrow().before_handle), (1, 1), "once per dispatch");
    assert_eq!(w.stats.borrow().real_seen_in_iter, 1, "the iterator yields the real polled event of the source");
    w.pb.ping(); // event on the SECOND sub-token ends in {}
    w.el.dispatch(Duration::ZERO, &mut log).unwrap();
    assert_eq!(log, vec![1, 2]);
    let (bs, bh) = (w.stats.borrow().before_sleep, w.stats.borrow().before_handle);
    assert_eq!((bs, bh), (2, 2));
    for _ in 0..2 { w.el.dispatch(Duration::ZERO, &mut log).unwrap(); }
    assert_eq!((w.stats.borrow().before_sleep, w.stats.borrow().before_handle), (bs, bh), "hooks called on a source after {}", what);
    assert_eq!(log, vec![1, 2]);
}

#[test] fn post_action_disable_from_second_subsource() { hooks_stop_after(PostAction::Disable, None, "PostAction::Disable") }
#[test] fn post_action_remove_from_second_subsource() { hooks_stop_after(PostAction::Remove, None, "PostAction::Remove") }
#[test] fn self_disable_from_second_subsource_callback() { hooks_stop_after(PostAction::Continue, Some(0), "disable() from its own callback") }
#[test] fn self_remove_from_second_subsource_callback() { hooks_stop_after(PostAction::Continue, Some(1), "remove() from its own callback") }

#[test]
fn reenable_after_subsource_disable_gives_hooks_once() {
    let mut w = world(PostAction::Disable, None);
    let mut log = vec![];
    w.pb.ping();
    w.el.dispatch(Duration::ZERO, &mut log).unwrap();
    w.el.handle().enable(&w.tok).unwrap();
    let before = w.stats.borrow().before_sleep;
    w.el.dispatch(Duration::ZERO, &mut log).unwrap();
    assert_eq!(w.stats.borrow().before_sleep, before + 1, "exactly one before_sleep per dispatch after re-enable");
}

/// a composite lifecycle source with three sub-tokens: a synthetic event returned by before_sleep for the THIRD
/// sub-token reaches process_events with exactly that token (and its readiness), in the same dispatch, without
/// blocking; a real event on the SECOND sub-token is what before_handle_events' iterator shows, with that token
#[test]
fn synthetic_and_real_events_keep_their_sub_tokens() {
    #[derive(Default)]
    struct Seen { toks: Vec<Token>, synth_got: Vec<(Token, Readiness)>, iter_saw: Vec<Token>, real_got: Vec<Token> }
    struct Tri { a: PingSource, b: PingSource, toks: Vec<Token>, fire: Rc<Cell<bool>>, seen: Rc<RefCell<Seen>> }
    impl EventSource for Tri {
        type Event = ();
        type Metadata = ();
        type Ret = ();
        type Error = Box<dyn std::error::Error + Sync + Send>;
        const NEEDS_EXTRA_LIFECYCLE_EVENTS: bool = true;
        fn process_events<F>(&mut self, r: Readiness, t: Token, _cb: F) -> Result<PostAction, Self::Error> where F: FnMut((), &mut ()) {
            if self.toks.len() == 3 && t == self.toks[2] { self.seen.borrow_mut().synth_got.push((t, r)); return Ok(PostAction::Continue); }
            let seen = self.seen.clone();
            self.a.process_events(r, t, |_, _| seen.borrow_mut().real_got.push(t))?;
            self.b.process_events(r, t, |_, _| seen.borrow_mut().real_got.push(t))?;
            Ok(PostAction::Continue)
        }
        fn register(&mut self, p: &mut Poll, f: &mut TokenFactory) -> calloop::Result<()> {
            // the sub-sources take the first two tokens of the factory, the third is kept for synthetic events
            self.a.register(p, f)?;
            self.b.register(p, f)?;
            let t2 = f.token();
            self.toks = vec![t2, t2, t2];
            self.seen.borrow_mut().toks = self.toks.clone();
            Ok(())
        }
        fn reregister(&mut self, p: &mut Poll, f: &mut TokenFactory) -> calloop::Result<()> { self.a.reregister(p, f)?; self.b.reregister(p, f)?; let t2 = f.token(); self.toks = vec![t2, t2, t2]; Ok(()) }
        fn unregister(&mut self, p: &mut Poll) -> calloop::Result<()> { self.a.unregister(p)?; self.b.unregister(p) }
        fn before_sleep(&mut self) -> calloop::Result<Option<(Readiness, Token)>> {
            Ok(if self.fire.replace(false) { Some((Readiness { readable: false, writable: true, error: false }, self.toks[2])) } else { None })
        }
        fn before_handle_events(&mut self, events: EventIterator<'_>) { for (_, t) in events { self.seen.borrow_mut().iter_saw.push(t); } }
    }
    let mut el: EventLoop<()> = EventLoop::try_new().unwrap();
    let (_pa, a) = make_ping().unwrap();
    let (pb, b) = make_ping().unwrap();
    let (fire, seen) = (Rc::new(Cell::new(false)), Rc::new(RefCell::new(Seen::default())));
    el.handle().insert_source(Tri { a, b, toks: vec![], fire: fire.clone(), seen: seen.clone() }, |_, _, _| {}).unwrap();
    // (1) synthetic event for the third sub-token: same dispatch, no blocking, right token and readiness
    fire.set(true);
    let t = std::time::Instant::now();
    el.dispatch(Duration::from_secs(2), &mut ()).unwrap();
    assert!(t.elapsed() < Duration::from_secs(1), "a synthetic event did not force a non-blocking wait");
    {
        let s = seen.borrow();
        assert_eq!(s.synth_got.len(), 1, "the synthetic event was not delivered to the sub-source whose token it carries (real callbacks: {:?})", s.real_got);
        assert!(s.synth_got[0].0 == s.toks[2] && s.synth_got[0].1.writable && !s.synth_got[0].1.readable);
        assert!(s.iter_saw.is_empty(), "the iterator of before_handle_events showed a synthetic event");
        assert!(s.real_got.is_empty(), "a sub-source fired for the synthetic event of another one");
    }
    // (2) a real event on the second sub-source: the iterator shows it, with the token process_events then gets
    pb.ping();
    el.dispatch(Duration::from_millis(200), &mut ()).unwrap();
    let s = seen.borrow();
    assert_eq!(s.real_got.len(), 1);
    assert_eq!(s.iter_saw.len(), 1, "before_handle_events did not see the real event of the second sub-source");
    assert!(s.iter_saw[0] == s.real_got[0]);
}
