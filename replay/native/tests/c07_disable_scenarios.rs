//! disable() silences a source at once -- also for events already collected in the running dispatch -- and what
//! accumulated meanwhile is delivered after enable() (C07), for the sources built on the ping source.
use calloop::channel::{channel, Event};
use calloop::ping::make_ping;
use calloop::{EventLoop, RegistrationToken};
use std::cell::Cell;
use std::rc::Rc;
use std::time::Duration;

type Log = Vec<(&'static str, u32)>;

#[test]
fn a_channel_disabled_earlier_in_the_same_batch_keeps_its_message_until_enabled() {
    let mut el: EventLoop<Log> = EventLoop::try_new().unwrap();
    let h = el.handle();
    let (tx_a, rx_a) = channel::<u32>();
    let (tx_b, rx_b) = channel::<u32>();
    let (ta, tb): (Rc<Cell<Option<RegistrationToken>>>, Rc<Cell<Option<RegistrationToken>>>) = Default::default();
    let (h1, tb1) = (h.clone(), tb.clone());
    ta.set(Some(h.insert_source(rx_a, move |ev, _, log: &mut Log| { if let Event::Msg(m) = ev { log.push(("a", m)); h1.disable(&tb1.get().unwrap()).unwrap(); } }).unwrap()));
    let (h2, ta2) = (h.clone(), ta.clone());
    tb.set(Some(h.insert_source(rx_b, move |ev, _, log: &mut Log| { if let Event::Msg(m) = ev { log.push(("b", m)); h2.disable(&ta2.get().unwrap()).unwrap(); } }).unwrap()));
    tx_a.send(1).unwrap();
    tx_b.send(2).unwrap();
    let mut log = Log::new();
    // both are ready in the same batch; whichever runs first disables the other, which must stay silent
    el.dispatch(Duration::from_millis(100), &mut log).unwrap();
    el.dispatch(Duration::from_millis(20), &mut log).unwrap();
    assert_eq!(log.len(), 1, "a channel delivered a message after disable() had returned for it: {:?}", log);
    // the silenced one gets its message once it is enabled again
    let silenced = if log[0].0 == "a" { tb.get().unwrap() } else { ta.get().unwrap() };
    h.enable(&silenced).unwrap();
    el.dispatch(Duration::from_millis(100), &mut log).unwrap();
    assert_eq!(log.len(), 2, "the message queued while disabled was lost: {:?}", log);
    assert!(log[0].0 != log[1].0);
    drop((tx_a, tx_b));
}

#[test]
fn a_ping_source_disabled_earlier_in_the_same_batch_fires_only_after_enable() {
    let mut el: EventLoop<Log> = EventLoop::try_new().unwrap();
    let h = el.handle();
    let (pa, sa) = make_ping().unwrap();
    let (pb, sb) = make_ping().unwrap();
    let (ta, tb): (Rc<Cell<Option<RegistrationToken>>>, Rc<Cell<Option<RegistrationToken>>>) = Default::default();
    let (h1, tb1) = (h.clone(), tb.clone());
    ta.set(Some(h.insert_source(sa, move |_, _, log: &mut Log| { log.push(("a", 0)); h1.disable(&tb1.get().unwrap()).unwrap(); }).unwrap()));
    let (h2, ta2) = (h.clone(), ta.clone());
    tb.set(Some(h.insert_source(sb, move |_, _, log: &mut Log| { log.push(("b", 0)); h2.disable(&ta2.get().unwrap()).unwrap(); }).unwrap()));
    pa.ping();
    pb.ping();
    let mut log = Log::new();
    el.dispatch(Duration::from_millis(100), &mut log).unwrap();
    el.dispatch(Duration::from_millis(20), &mut log).unwrap();
    assert_eq!(log.len(), 1, "{:?}", log);
    let silenced = if log[0].0 == "a" { tb.get().unwrap() } else { ta.get().unwrap() };
    h.enable(&silenced).unwrap();
    el.dispatch(Duration::from_millis(100), &mut log).unwrap();
    assert_eq!(log.len(), 2, "the ping that arrived before the disable was lost: {:?}", log);
}
