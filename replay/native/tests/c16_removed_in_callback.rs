//! Scenarios for sources removed from inside their own callback (C16, C06, C01): the fd leaves the
//! poller even when the freed slot is reused within the same callback; dead tokens stay dead.
use calloop::generic::Generic;
use calloop::timer::{TimeoutAction, Timer};
use calloop::{Dispatcher, EventLoop, Interest, Mode, PostAction, RegistrationToken};
use std::cell::Cell;
use std::io::Write;
use std::os::unix::net::UnixStream;
use std::rc::Rc;
use std::time::Duration;

struct Fd(Rc<UnixStream>);
impl std::os::unix::io::AsFd for Fd { fn as_fd(&self) -> std::os::unix::io::BorrowedFd<'_> { self.0.as_fd() } }

#[test]
fn self_remove_and_slot_reuse_leaves_no_ghost_registration() {
    // the same fd NUMBER is inserted again afterwards, and the loop must not keep waking up for it
    let mut el: EventLoop<u32> = EventLoop::try_new().unwrap();
    let h = el.handle();
    let (a, mut peer) = UnixStream::pair().unwrap();
    let a = Rc::new(a);
    let tokc: Rc<Cell<Option<RegistrationToken>>> = Rc::new(Cell::new(None));
    let (h2, t2) = (h.clone(), tokc.clone());
    let disp = Dispatcher::new(Generic::new(Fd(a.clone()), Interest::READ, Mode::Level), move |_, _, n: &mut u32| {
        *n += 1;
        h2.remove(t2.get().unwrap());
        h2.insert_source(Timer::from_duration(Duration::from_secs(3600)), |_, _, _| TimeoutAction::Drop).unwrap();
        Ok(PostAction::Continue)
    });
    tokc.set(Some(h.register_dispatcher(disp.clone()).unwrap()));
    peer.write_all(b"x").unwrap(); // stays unread: the fd is readable for good
    let mut n = 0;
    el.dispatch(Duration::from_millis(100), &mut n).unwrap();
    assert_eq!(n, 1);
    let t = std::time::Instant::now();
    el.dispatch(Duration::from_millis(150), &mut n).unwrap();
    assert!(t.elapsed() >= Duration::from_millis(140), "the removed source's fd still wakes the loop ({:?})", t.elapsed());
    h.insert_source(Generic::new(Fd(a.clone()), Interest::READ, Mode::Level), |_, _, _| Ok(PostAction::Continue))
        .map_err(|e| e.error)
        .expect("re-inserting the very same fd after the source removed itself and its slot was reused");
    drop(disp);
}

#[test]
fn self_remove_and_slot_reuse_unregisters_the_fd() {
    let mut el: EventLoop<u32> = EventLoop::try_new().unwrap();
    let h = el.handle();
    let (a, mut peer) = UnixStream::pair().unwrap();
    let a2 = a.try_clone().unwrap();
    let tokc: Rc<Cell<Option<RegistrationToken>>> = Rc::new(Cell::new(None));
    let (h2, t2) = (h.clone(), tokc.clone());
    // a Dispatcher clone keeps the removed source alive, so only the loop can unregister its fd
    let disp = Dispatcher::new(Generic::new(a, Interest::READ, Mode::Level), move |_, _, n: &mut u32| {
        *n += 1;
        h2.remove(t2.get().unwrap());
        // reuse the freed slot at once
        h2.insert_source(Timer::from_duration(Duration::from_secs(3600)), |_, _, _| TimeoutAction::Drop).unwrap();
        Ok(PostAction::Continue)
    });
    let tok = h.register_dispatcher(disp.clone()).unwrap();
    tokc.set(Some(tok));
    peer.write_all(b"x").unwrap();
    let mut n = 0;
    el.dispatch(Duration::from_millis(100), &mut n).unwrap();
    assert_eq!(n, 1);
    // no ghost events for the removed source
    el.dispatch(Duration::from_millis(20), &mut n).unwrap();
    assert_eq!(n, 1, "the removed source was dispatched again");
    // the fd can be inserted again (same open file description)
    h.insert_source(Generic::new(a2, Interest::READ, Mode::Level), |_, _, _| Ok(PostAction::Continue))
        .map_err(|e| e.error)
        .expect("re-inserting the fd of a source that removed itself (slot reused in the same callback)");
    // and the dead token does nothing to the source that reused the slot
    assert!(h.disable(&tok).is_err() && h.enable(&tok).is_err() && h.update(&tok).is_err());
    drop(disp);
}

#[test]
fn self_remove_without_reuse_unregisters_the_fd() {
    let mut el: EventLoop<u32> = EventLoop::try_new().unwrap();
    let h = el.handle();
    let (a, mut peer) = UnixStream::pair().unwrap();
    let a2 = a.try_clone().unwrap();
    let tokc: Rc<Cell<Option<RegistrationToken>>> = Rc::new(Cell::new(None));
    let (h2, t2) = (h.clone(), tokc.clone());
    let disp = Dispatcher::new(Generic::new(a, Interest::READ, Mode::Level), move |_, _, n: &mut u32| { *n += 1; h2.remove(t2.get().unwrap()); Ok(PostAction::Continue) });
    tokc.set(Some(h.register_dispatcher(disp.clone()).unwrap()));
    peer.write_all(b"x").unwrap();
    let mut n = 0;
    el.dispatch(Duration::from_millis(100), &mut n).unwrap();
    h.insert_source(Generic::new(a2, Interest::READ, Mode::Level), |_, _, _| Ok(PostAction::Continue)).map_err(|e| e.error).expect("fd free again");
    drop(disp);
}

#[test]
fn post_action_remove_unregisters_the_fd() {
    let mut el: EventLoop<u32> = EventLoop::try_new().unwrap();
    let h = el.handle();
    let (a, mut peer) = UnixStream::pair().unwrap();
    let a2 = a.try_clone().unwrap();
    let disp = Dispatcher::new(Generic::new(a, Interest::READ, Mode::Level), |_, _, n: &mut u32| { *n += 1; Ok(PostAction::Remove) });
    h.register_dispatcher(disp.clone()).unwrap();
    peer.write_all(b"x").unwrap();
    let mut n = 0;
    el.dispatch(Duration::from_millis(100), &mut n).unwrap();
    h.insert_source(Generic::new(a2, Interest::READ, Mode::Level), |_, _, _| Ok(PostAction::Continue)).map_err(|e| e.error).expect("fd free again");
    drop(disp);
}

/// a hand-written source with two fds registered directly with the poller (it does not filter on a token of its own):
/// both are ready in the same batch; on the first event the callback removes the source through the handle. The second
/// event of the batch must not reach the removed source (C06: never invoked again once its current event processing
/// has finished), and both fds must be out of the poller.
#[test]
fn self_removed_source_gets_no_further_event_of_the_batch() {
    use calloop::{EventSource, Poll, Readiness, Token, TokenFactory};
    struct Two { a: Rc<UnixStream>, b: Rc<UnixStream> }
    impl EventSource for Two {
        type Event = ();
        type Metadata = ();
        type Ret = ();
        type Error = std::io::Error;
        fn process_events<F>(&mut self, _: Readiness, _: Token, mut cb: F) -> Result<PostAction, Self::Error> where F: FnMut((), &mut ()) { cb((), &mut ()); Ok(PostAction::Continue) }
        fn register(&mut self, p: &mut Poll, f: &mut TokenFactory) -> calloop::Result<()> {
            unsafe { p.register(Fd(self.a.clone()), Interest::READ, Mode::Level, f.token())?; p.register(Fd(self.b.clone()), Interest::READ, Mode::Level, f.token()) }
        }
        fn reregister(&mut self, p: &mut Poll, f: &mut TokenFactory) -> calloop::Result<()> {
            p.reregister(Fd(self.a.clone()), Interest::READ, Mode::Level, f.token())?; p.reregister(Fd(self.b.clone()), Interest::READ, Mode::Level, f.token())
        }
        fn unregister(&mut self, p: &mut Poll) -> calloop::Result<()> { p.unregister(Fd(self.a.clone()))?; p.unregister(Fd(self.b.clone())) }
    }
    let mut el: EventLoop<u32> = EventLoop::try_new().unwrap();
    let h = el.handle();
    let (a, mut pa) = UnixStream::pair().unwrap();
    let (b, mut pb) = UnixStream::pair().unwrap();
    let (a, b) = (Rc::new(a), Rc::new(b));
    let tokc: Rc<Cell<Option<RegistrationToken>>> = Rc::new(Cell::new(None));
    let (h2, t2) = (h.clone(), tokc.clone());
    let disp = Dispatcher::new(Two { a: a.clone(), b: b.clone() }, move |_, _, n: &mut u32| { *n += 1; h2.remove(t2.get().unwrap()); });
    tokc.set(Some(h.register_dispatcher(disp.clone()).unwrap()));
    pa.write_all(b"x").unwrap();
    pb.write_all(b"x").unwrap();
    let mut n = 0;
    el.dispatch(Duration::from_millis(100), &mut n).unwrap();
    assert_eq!(n, 1, "the callback of a removed source was invoked again for the second event of the batch");
    let t = std::time::Instant::now();
    el.dispatch(Duration::from_millis(120), &mut n).unwrap();
    assert_eq!(n, 1);
    assert!(t.elapsed() >= Duration::from_millis(110), "a removed source's fd still wakes the loop");
    drop(disp);
}
