//! D15 (C14, C06): removing a source that opted into the extra lifecycle events while its unregister() fails (its fd
//! was closed behind its back, a user source reporting an error, ...) vacates the slot but leaves its token in the
//! lifecycle set: the next dispatch panics at `unreachable!()`.
use calloop::ping::{make_ping, PingSource};
use calloop::{EventIterator, EventLoop, EventSource, Poll, PostAction, Readiness, Token, TokenFactory};
use std::cell::Cell;
use std::rc::Rc;
use std::time::Duration;

struct Lc { ping: PingSource, fail_unregister: bool, hooks: Rc<Cell<u32>>, remove_itself: bool }
impl EventSource for Lc {
    type Event = ();
    type Metadata = ();
    type Ret = ();
    type Error = Box<dyn std::error::Error + Sync + Send>;
    const NEEDS_EXTRA_LIFECYCLE_EVENTS: bool = true;
    fn process_events<F>(&mut self, r: Readiness, t: Token, mut cb: F) -> Result<PostAction, Self::Error> where F: FnMut((), &mut ()) {
        self.ping.process_events(r, t, |_, _| cb((), &mut ()))?;
        Ok(if self.remove_itself { PostAction::Remove } else { PostAction::Continue })
    }
    fn register(&mut self, p: &mut Poll, f: &mut TokenFactory) -> calloop::Result<()> { self.ping.register(p, f) }
    fn reregister(&mut self, p: &mut Poll, f: &mut TokenFactory) -> calloop::Result<()> { self.ping.reregister(p, f) }
    fn unregister(&mut self, p: &mut Poll) -> calloop::Result<()> {
        let r = self.ping.unregister(p);
        if self.fail_unregister { Err(calloop::Error::OtherError("unregister failed".into())) } else { r }
    }
    fn before_sleep(&mut self) -> calloop::Result<Option<(Readiness, Token)>> { self.hooks.set(self.hooks.get() + 1); Ok(None) }
    fn before_handle_events(&mut self, _: EventIterator<'_>) { self.hooks.set(self.hooks.get() + 1); }
}

#[test]
fn d15_remove_from_outside() {
    let mut el: EventLoop<()> = EventLoop::try_new().unwrap();
    let hooks = Rc::new(Cell::new(0));
    let (_ping, source) = make_ping().unwrap();
    let tok = el.handle().insert_source(Lc { ping: source, fail_unregister: true, hooks: hooks.clone(), remove_itself: false }, |_, _, _| {}).unwrap();
    el.dispatch(Duration::ZERO, &mut ()).unwrap();
    assert_eq!(hooks.get(), 2);
    el.handle().remove(tok);
    // the removed source gets no further hooks and, above all, the loop keeps working
    el.dispatch(Duration::ZERO, &mut ()).unwrap();
    el.dispatch(Duration::ZERO, &mut ()).unwrap();
    assert_eq!(hooks.get(), 2, "a removed source still receives lifecycle hooks");
}

#[test]
fn d15_post_action_remove() {
    let mut el: EventLoop<()> = EventLoop::try_new().unwrap();
    let hooks = Rc::new(Cell::new(0));
    let (ping, source) = make_ping().unwrap();
    el.handle().insert_source(Lc { ping: source, fail_unregister: true, hooks: hooks.clone(), remove_itself: true }, |_, _, _| {}).unwrap();
    ping.ping();
    el.dispatch(Duration::from_millis(100), &mut ()).unwrap();
    let h = hooks.get();
    el.dispatch(Duration::ZERO, &mut ()).unwrap();
    el.dispatch(Duration::ZERO, &mut ()).unwrap();
    assert_eq!(hooks.get(), h, "a removed source still receives lifecycle hooks");
}

/// the same through an event of the SECOND sub-source (sub-id 1): the entry the loop has to drop is the one of the
/// registration token, whatever sub-token the event carried
#[test]
fn d15_post_action_remove_from_a_secondary_sub_source() {
    struct Two { a: PingSource, b: PingSource, hooks: Rc<Cell<u32>> }
    impl EventSource for Two {
        type Event = ();
        type Metadata = ();
        type Ret = ();
        type Error = Box<dyn std::error::Error + Sync + Send>;
        const NEEDS_EXTRA_LIFECYCLE_EVENTS: bool = true;
        fn process_events<F>(&mut self, r: Readiness, t: Token, mut cb: F) -> Result<PostAction, Self::Error> where F: FnMut((), &mut ()) {
            let mut hit_b = false;
            self.a.process_events(r, t, |_, _| cb((), &mut ()))?;
            self.b.process_events(r, t, |_, _| hit_b = true)?;
            Ok(if hit_b { PostAction::Remove } else { PostAction::Continue })
        }
        fn register(&mut self, p: &mut Poll, f: &mut TokenFactory) -> calloop::Result<()> { self.a.register(p, f)?; self.b.register(p, f) }
        fn reregister(&mut self, p: &mut Poll, f: &mut TokenFactory) -> calloop::Result<()> { self.a.reregister(p, f)?; self.b.reregister(p, f) }
        fn unregister(&mut self, p: &mut Poll) -> calloop::Result<()> { let _ = self.a.unregister(p); let _ = self.b.unregister(p); Err(calloop::Error::OtherError("unregister failed".into())) }
        fn before_sleep(&mut self) -> calloop::Result<Option<(Readiness, Token)>> { self.hooks.set(self.hooks.get() + 1); Ok(None) }
        fn before_handle_events(&mut self, _: EventIterator<'_>) {}
    }
    let mut el: EventLoop<()> = EventLoop::try_new().unwrap();
    let hooks = Rc::new(Cell::new(0));
    let (_pa, a) = make_ping().unwrap();
    let (pb, b) = make_ping().unwrap();
    el.handle().insert_source(Two { a, b, hooks: hooks.clone() }, |_, _, _| {}).unwrap();
    pb.ping();
    el.dispatch(Duration::from_millis(100), &mut ()).unwrap();
    let h = hooks.get();
    el.dispatch(Duration::ZERO, &mut ()).unwrap();
    el.dispatch(Duration::ZERO, &mut ()).unwrap();
    assert_eq!(hooks.get(), h, "a removed source still receives lifecycle hooks");
}
