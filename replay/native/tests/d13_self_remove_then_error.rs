//! D13 (C16, C06): a source that removes itself from inside its callback and whose event processing then
//! returns an error. dispatch_events leaves through `?` before the "removed inside its callback" check,
//! so the loop never unregisters the source: its fd stays in the poller (ghost wake-ups; EEXIST when the
//! same fd is inserted again).
use calloop::generic::Generic;
use calloop::{Dispatcher, EventLoop, Interest, Mode, PostAction, RegistrationToken};
use std::cell::Cell;
use std::io::Write;
use std::os::unix::net::UnixStream;
use std::rc::Rc;
use std::time::Duration;

struct Fd(Rc<UnixStream>);
impl std::os::unix::io::AsFd for Fd { fn as_fd(&self) -> std::os::unix::io::BorrowedFd<'_> { self.0.as_fd() } }

#[test]
fn self_remove_then_processing_error_still_unregisters_the_fd() {
    let mut el: EventLoop<u32> = EventLoop::try_new().unwrap();
    let h = el.handle();
    let (a, mut peer) = UnixStream::pair().unwrap();
    let a = Rc::new(a);
    let tokc: Rc<Cell<Option<RegistrationToken>>> = Rc::new(Cell::new(None));
    let (h2, t2) = (h.clone(), tokc.clone());
    // a Dispatcher clone keeps the removed source alive, so only the loop can unregister its fd
    let disp = Dispatcher::new(Generic::new(Fd(a.clone()), Interest::READ, Mode::Level), move |_, _, n: &mut u32| {
        *n += 1;
        h2.remove(t2.get().unwrap());
        Err(std::io::Error::new(std::io::ErrorKind::Other, "processing failed after the source removed itself"))
    });
    tokc.set(Some(h.register_dispatcher(disp.clone()).unwrap()));
    peer.write_all(b"x").unwrap(); // stays unread: the fd is readable for good
    let mut n = 0;
    assert!(el.dispatch(Duration::from_millis(100), &mut n).is_err(), "the processing error is reported");
    assert_eq!(n, 1);
    let t = std::time::Instant::now();
    el.dispatch(Duration::from_millis(150), &mut n).unwrap();
    assert_eq!(n, 1, "the removed source was dispatched again");
    assert!(t.elapsed() >= Duration::from_millis(140), "the removed source's fd still wakes the loop ({:?})", t.elapsed());
    h.insert_source(Generic::new(Fd(a.clone()), Interest::READ, Mode::Level), |_, _, _| Ok(PostAction::Continue))
        .map_err(|e| e.error)
        .expect("re-inserting the very same fd after the source removed itself");
    drop(disp);
}

#[test]
fn self_remove_then_ok_unregisters_the_fd() {
    // control: the same history without the error
    let mut el: EventLoop<u32> = EventLoop::try_new().unwrap();
    let h = el.handle();
    let (a, mut peer) = UnixStream::pair().unwrap();
    let a = Rc::new(a);
    let tokc: Rc<Cell<Option<RegistrationToken>>> = Rc::new(Cell::new(None));
    let (h2, t2) = (h.clone(), tokc.clone());
    let disp = Dispatcher::new(Generic::new(Fd(a.clone()), Interest::READ, Mode::Level), move |_, _, n: &mut u32| {
        *n += 1;
        h2.remove(t2.get().unwrap());
        Ok(PostAction::Continue)
    });
    tokc.set(Some(h.register_dispatcher(disp.clone()).unwrap()));
    peer.write_all(b"x").unwrap();
    let mut n = 0;
    el.dispatch(Duration::from_millis(100), &mut n).unwrap();
    let t = std::time::Instant::now();
    el.dispatch(Duration::from_millis(150), &mut n).unwrap();
    assert!(t.elapsed() >= Duration::from_millis(140));
    h.insert_source(Generic::new(Fd(a.clone()), Interest::READ, Mode::Level), |_, _, _| Ok(PostAction::Continue))
        .map_err(|e| e.error)
        .expect("re-inserting the very same fd after the source removed itself");
    drop(disp);
}
