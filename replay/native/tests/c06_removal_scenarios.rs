//! Removal is final (C06): whatever the poller says when the source is unregistered, after
//! LoopHandle::remove the token is dead, the loop holds no reference and the slot is reusable.
use calloop::ping::make_ping;
use calloop::{Dispatcher, Error, EventLoop};
use std::time::Duration;

#[test]
fn remove_after_disable_is_final() {
    // the fd is already out of the poller: the unregister made by remove() fails (ENOENT)
    let mut el: EventLoop<u32> = EventLoop::try_new().unwrap();
    let h = el.handle();
    let (ping, source) = make_ping().unwrap();
    let disp = Dispatcher::new(source, |_, _, n: &mut u32| *n += 1);
    let tok = h.register_dispatcher(disp.clone()).unwrap();
    h.disable(&tok).unwrap();
    h.remove(tok);
    assert!(matches!(h.enable(&tok), Err(Error::InvalidToken)), "the token of a removed source still enables it");
    assert!(matches!(h.update(&tok), Err(Error::InvalidToken)));
    assert!(matches!(h.disable(&tok), Err(Error::InvalidToken)));
    ping.ping();
    let mut n = 0;
    el.dispatch(Duration::from_millis(30), &mut n).unwrap();
    assert_eq!(n, 0, "a removed source was dispatched");
    // the loop released its reference: the caller's Dispatcher is the only owner left
    let _source = Dispatcher::into_source_inner(disp);
    // and the slot is reusable under a different token
    let (_p2, s2) = make_ping().unwrap();
    let tok2 = h.insert_source(s2, |_, _, _| {}).unwrap();
    assert!(tok2 != tok, "a dead token came back to life");
}

#[test]
fn remove_of_a_live_source_is_final_too() {
    let mut el: EventLoop<u32> = EventLoop::try_new().unwrap();
    let h = el.handle();
    let (ping, source) = make_ping().unwrap();
    let disp = Dispatcher::new(source, |_, _, n: &mut u32| *n += 1);
    let tok = h.register_dispatcher(disp.clone()).unwrap();
    h.remove(tok);
    assert!(matches!(h.enable(&tok), Err(Error::InvalidToken)));
    ping.ping();
    let mut n = 0;
    el.dispatch(Duration::from_millis(30), &mut n).unwrap();
    assert_eq!(n, 0);
    let _source = Dispatcher::into_source_inner(disp);
}
