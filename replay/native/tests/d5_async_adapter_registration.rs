//! D5 (C16, C15, C17): the Async adapter must leave nothing behind: after drop / into_inner the
//! fd is no longer in the poller (it can be adapted or inserted again); when adapt_io fails
//! the fd's blocking mode is as before.
use calloop::generic::Generic;
use calloop::{EventLoop, Interest, Mode, PostAction};
use rustix::fs::{fcntl_getfl, OFlags};
use std::os::unix::net::UnixStream;

#[test]
fn d5a_readapt_after_into_inner() {
    let el: EventLoop<()> = EventLoop::try_new().unwrap();
    let h = el.handle();
    let (a, _b) = UnixStream::pair().unwrap();
    let ad = h.adapt_io(a).unwrap();
    let a = ad.into_inner();
    let ad2 = h.adapt_io(a).expect("adapting the same fd again after into_inner()");
    drop(ad2);
}

#[test]
fn d5a_insert_generic_after_adapter_dropped() {
    let el: EventLoop<()> = EventLoop::try_new().unwrap();
    let h = el.handle();
    let (a, _b) = UnixStream::pair().unwrap();
    let dup = a.try_clone().unwrap();
    // same open file description => the epoll entry of `a` would survive closing `a`
    let ad = h.adapt_io(a).unwrap();
    let a = ad.into_inner();
    h.insert_source(Generic::new(a, Interest::READ, Mode::Level), |_, _, _| Ok(PostAction::Continue))
        .map_err(|e| e.error)
        .expect("inserting the fd as a Generic source after the adapter is gone");
    drop(dup);
}

#[test]
fn d5a_blocking_mode_restored() {
    let el: EventLoop<()> = EventLoop::try_new().unwrap();
    let (a, _b) = UnixStream::pair().unwrap();
    assert!(!fcntl_getfl(&a).unwrap().contains(OFlags::NONBLOCK));
    let ad = el.handle().adapt_io(a).unwrap();
    let a = ad.into_inner();
    assert!(!fcntl_getfl(&a).unwrap().contains(OFlags::NONBLOCK), "into_inner restores blocking mode");
}

#[test]
fn d5b_failed_adapt_restores_blocking_mode() {
    let el: EventLoop<()> = EventLoop::try_new().unwrap();
    // epoll refuses regular files (EPERM): adapt_io must fail cleanly
    let f = std::fs::File::open("/proc/self/cmdline").or_else(|_| std::fs::File::open("/etc/hostname")).unwrap();
    let g = f.try_clone().unwrap();
    assert!(!fcntl_getfl(&g).unwrap().contains(OFlags::NONBLOCK));
    match el.handle().adapt_io(f) {
        Ok(_) => {} // a poller that accepts it: nothing to check
        Err(_) => assert!(!fcntl_getfl(&g).unwrap().contains(OFlags::NONBLOCK), "a failed adapt_io leaves the fd non-blocking"),
    }
}
