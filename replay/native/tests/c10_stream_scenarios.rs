//! StreamSource scenarios (C10): every item once, in order, then one None, then removal.
use calloop::stream::StreamSource;
use calloop::EventLoop;
use futures::channel::mpsc;
use std::time::{Duration, Instant};

#[test]
fn items_in_order_then_a_single_none_then_removed() {
    let mut el: EventLoop<Vec<Option<u32>>> = EventLoop::try_new().unwrap();
    let (tx, rx) = mpsc::unbounded::<u32>();
    el.handle().insert_source(StreamSource::new(rx).unwrap(), |it, _, v: &mut Vec<Option<u32>>| v.push(it)).unwrap();
    let th = std::thread::spawn(move || { for i in 0..500 { tx.unbounded_send(i).unwrap(); if i % 50 == 0 { std::thread::sleep(Duration::from_millis(1)); } } });
    let mut v = vec![];
    let t = Instant::now();
    while v.last() != Some(&None) { el.dispatch(Duration::from_millis(100), &mut v).unwrap(); assert!(t.elapsed() < Duration::from_secs(10), "stream items stranded: {}", v.len()); }
    th.join().unwrap();
    let expect: Vec<Option<u32>> = (0..500).map(Some).chain(std::iter::once(None)).collect();
    assert_eq!(v, expect);
    let t0 = Instant::now();
    el.dispatch(Duration::from_millis(60), &mut v).unwrap();
    assert_eq!(v.len(), 501, "something was delivered after the end of the stream");
    assert!(t0.elapsed() >= Duration::from_millis(50), "an ended stream keeps the loop spinning");
}

#[test]
fn a_burst_larger_than_any_batch_is_delivered_completely_without_further_wakeups() {
    // everything is queued and the producer is gone BEFORE the first dispatch: no later wake-up will come
    for n in [1u32, 1023, 1024, 1025, 5000] {
        let mut el: EventLoop<Vec<Option<u32>>> = EventLoop::try_new().unwrap();
        let (tx, rx) = mpsc::unbounded::<u32>();
        el.handle().insert_source(StreamSource::new(rx).unwrap(), |it, _, v: &mut Vec<Option<u32>>| v.push(it)).unwrap();
        for i in 0..n { tx.unbounded_send(i).unwrap(); }
        drop(tx);
        let mut v = vec![];
        let t = Instant::now();
        while v.last() != Some(&None) {
            el.dispatch(Duration::from_millis(50), &mut v).unwrap();
            assert!(t.elapsed() < Duration::from_secs(5), "burst of {}: stranded after {} deliveries", n, v.len());
        }
        let expect: Vec<Option<u32>> = (0..n).map(Some).chain(std::iter::once(None)).collect();
        assert_eq!(v, expect, "burst of {}", n);
    }
}

/// dropping the executor drops every future it still holds -- also a parked one whose waker has been cloned
/// elsewhere -- and schedule() fails afterwards
#[test]
fn dropping_the_executor_drops_parked_futures_whose_waker_lives_elsewhere() {
    use calloop::futures::executor;
    use std::future::Future;
    use std::pin::Pin;
    use std::sync::atomic::{AtomicBool, Ordering};
    use std::sync::{Arc, Mutex};
    use std::task::{Context, Poll, Waker};
    struct Parked { keep: Arc<Mutex<Option<Waker>>>, dropped: Arc<AtomicBool> }
    impl Future for Parked {
        type Output = ();
        fn poll(self: Pin<&mut Self>, cx: &mut Context<'_>) -> Poll<()> { *self.keep.lock().unwrap() = Some(cx.waker().clone()); Poll::Pending }
    }
    impl Drop for Parked { fn drop(&mut self) { self.dropped.store(true, Ordering::SeqCst); } }
    let mut el: EventLoop<()> = EventLoop::try_new().unwrap();
    let (exec, sched) = executor::<()>().unwrap();
    el.handle().insert_source(exec, |_, _, _| {}).unwrap();
    let keep = Arc::new(Mutex::new(None));
    let (d1, d2) = (Arc::new(AtomicBool::new(false)), Arc::new(AtomicBool::new(false)));
    sched.schedule(Parked { keep: keep.clone(), dropped: d1.clone() }).unwrap();
    el.dispatch(Duration::from_millis(50), &mut ()).unwrap();
    assert!(keep.lock().unwrap().is_some(), "the future was polled and parked");
    // a second one that is still queued, never polled
    sched.schedule(Parked { keep: Arc::new(Mutex::new(None)), dropped: d2.clone() }).unwrap();
    drop(el);
    assert!(d1.load(Ordering::SeqCst), "a parked future whose waker is held elsewhere outlived the executor");
    assert!(d2.load(Ordering::SeqCst), "a queued future outlived the executor");
    assert!(sched.schedule(async {}).is_err(), "schedule() on a destroyed executor");
    drop(keep);
}

/// round 9 (seed C10-7): a wake issued WHILE the stream is being polled (a stream that yields cooperatively: wakes its own
/// waker, then returns Pending) is a wake like any other: the stream is polled again and every item arrives
#[test]
fn a_wake_issued_during_the_poll_of_the_stream_is_not_lost() {
    use std::pin::Pin;
    use std::task::{Context, Poll};
    struct Yielding { next: u32, yielded: bool }
    impl futures::Stream for Yielding {
        type Item = u32;
        fn poll_next(mut self: Pin<&mut Self>, cx: &mut Context<'_>) -> Poll<Option<u32>> {
            if !self.yielded { self.yielded = true; cx.waker().wake_by_ref(); return Poll::Pending; }
            self.yielded = false;
            if self.next == 3 { return Poll::Ready(None); }
            self.next += 1;
            Poll::Ready(Some(self.next - 1))
        }
    }
    let mut el: EventLoop<Vec<Option<u32>>> = EventLoop::try_new().unwrap();
    el.handle().insert_source(StreamSource::new(Yielding { next: 0, yielded: false }).unwrap(), |it, _, v: &mut Vec<Option<u32>>| v.push(it)).unwrap();
    let mut v = vec![];
    let t = Instant::now();
    while v.last() != Some(&None) {
        el.dispatch(Duration::from_millis(50), &mut v).unwrap();
        assert!(t.elapsed() < Duration::from_secs(3), "the stream woke itself while it was polled and was never polled again: {:?}", v);
    }
    assert_eq!(v, vec![Some(0), Some(1), Some(2), None]);
}
