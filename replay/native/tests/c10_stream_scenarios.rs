//! StreamSource scenarios (C10): every item once, in order, then one None, then removal.
use calloop::stream::StreamSource;
use calloop::EventLoop;
use futures::channel::mpsc;
use std::time::{Duration, Instant};

#[test]
fn items_in_order_then_a_single_none_then_removed() {
    let mut el: EventLoop<Vec<Option<u32>>> = EventLoop::try_new().unwrap();
    let (tx, rx) = mpsc::unbounded::<u32>();
    el.handle().insert_source(StreamSource::new(rx).unwrap(), |it, _, v: &mut Vec<Option<u32>>| v.push(it)).unwrap();
    let th = std::thread::spawn(move || { for i in 0..500 { tx.unbounded_send(i).unwrap(); if i % 50 == 0 { std::thread::sleep(Duration::from_millis(1)); } } });
    let mut v = vec![];
    let t = Instant::now();
    while v.last() != Some(&None) { el.dispatch(Duration::from_millis(100), &mut v).unwrap(); assert!(t.elapsed() < Duration::from_secs(10), "stream items stranded: {}", v.len()); }
    th.join().unwrap();
    let expect: Vec<Option<u32>> = (0..500).map(Some).chain(std::iter::once(None)).collect();
    assert_eq!(v, expect);
    let t0 = Instant::now();
    el.dispatch(Duration::from_millis(60), &mut v).unwrap();
    assert_eq!(v.len(), 501, "something was delivered after the end of the stream");
    assert!(t0.elapsed() >= Duration::from_millis(50), "an ended stream keeps the loop spinning");
}

#[test]
fn a_burst_larger_than_any_batch_is_delivered_completely_without_further_wakeups() {
    // everything is queued and the producer is gone BEFORE the first dispatch: no later wake-up will come
    for n in [1u32, 1023, 1024, 1025, 5000] {
        let mut el: EventLoop<Vec<Option<u32>>> = EventLoop::try_new().unwrap();
        let (tx, rx) = mpsc::unbounded::<u32>();
        el.handle().insert_source(StreamSource::new(rx).unwrap(), |it, _, v: &mut Vec<Option<u32>>| v.push(it)).unwrap();
        for i in 0..n { tx.unbounded_send(i).unwrap(); }
        drop(tx);
        let mut v = vec![];
        let t = Instant::now();
        while v.last() != Some(&None) {
            el.dispatch(Duration::from_millis(50), &mut v).unwrap();
            assert!(t.elapsed() < Duration::from_secs(5), "burst of {}: stranded after {} deliveries", n, v.len());
        }
        let expect: Vec<Option<u32>> = (0..n).map(Some).chain(std::iter::once(None)).collect();
        assert_eq!(v, expect, "burst of {}", n);
    }
}
