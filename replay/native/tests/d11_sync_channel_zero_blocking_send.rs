//! D11 (C04): SyncSender::send on a zero-capacity channel: try_send -> Full -> ping, then the
//! blocking send.  If the loop consumes that ping and finds the queue Empty before the sender has
//! entered its blocking send, nobody wakes the loop again: the send never completes although the
//! loop keeps dispatching.  (Schedule found by the interleaving check; this is a stress
//! reproduction: the window is a few instructions wide.)
use calloop::channel::{sync_channel, Event};
use calloop::EventLoop;
use std::sync::atomic::{AtomicBool, AtomicU64, Ordering};
use std::sync::Arc;
use std::time::{Duration, Instant};

#[test]
fn d11_blocking_send_on_rendezvous_channel_completes() {
    let budget = Duration::from_secs(std::env::var("D11_SECS").ok().and_then(|s| s.parse().ok()).unwrap_or(20));
    let start = Instant::now();
    let mut round = 0u64;
    while start.elapsed() < budget {
        round += 1;
        let mut el: EventLoop<u64> = EventLoop::try_new().unwrap();
        let (tx, rx) = sync_channel::<u64>(0);
        el.handle().insert_source(rx, |ev, _, n| if let Event::Msg(_) = ev { *n += 1 }).unwrap();
        let sent = Arc::new(AtomicU64::new(0));
        let done = Arc::new(AtomicBool::new(false));
        let (s2, d2) = (sent.clone(), done.clone());
        let th = std::thread::spawn(move || {
            for i in 0..2000u64 {
                if tx.send(i).is_err() { break; }
                s2.store(i + 1, Ordering::SeqCst);
            }
            d2.store(true, Ordering::SeqCst);
        });
        let mut got = 0u64;
        let mut last_progress = Instant::now();
        let mut last_sent = 0;
        while !done.load(Ordering::SeqCst) {
            // the loop keeps dispatching (short timeout, so it reacts at once and never stops)
            el.dispatch(Duration::from_micros(50), &mut got).unwrap();
            let s = sent.load(Ordering::SeqCst);
            if s != last_sent { last_sent = s; last_progress = Instant::now(); }
            if last_progress.elapsed() > Duration::from_secs(2) {
                panic!("round {}: blocking send #{} never completed although the loop kept dispatching for 2 s ({} delivered)", round, s, got);
            }
        }
        th.join().unwrap();
    }
}
