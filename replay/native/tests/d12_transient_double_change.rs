//! D12 (C18): two changes before the (single) owed re-registration -- replace() twice, or replace()
//! then remove() -- must still unregister the original, registered child before it is dropped.
use calloop::ping::{make_ping, PingSource};
use calloop::transient::TransientSource;
use calloop::{Dispatcher, EventLoop, EventSource, Poll, PostAction, Readiness, Token, TokenFactory};
use std::cell::Cell;
use std::rc::Rc;

struct Child { ping: PingSource, registered: bool, dropped_registered: Rc<Cell<u32>> }
impl Drop for Child { fn drop(&mut self) { if self.registered { self.dropped_registered.set(self.dropped_registered.get() + 1); } } }
impl EventSource for Child {
    type Event = ();
    type Metadata = ();
    type Ret = ();
    type Error = Box<dyn std::error::Error + Sync + Send>;
    fn process_events<F>(&mut self, r: Readiness, t: Token, cb: F) -> Result<PostAction, Self::Error> where F: FnMut((), &mut ()) { Ok(self.ping.process_events(r, t, cb)?) }
    fn register(&mut self, p: &mut Poll, f: &mut TokenFactory) -> calloop::Result<()> { self.registered = true; self.ping.register(p, f) }
    fn reregister(&mut self, p: &mut Poll, f: &mut TokenFactory) -> calloop::Result<()> { self.ping.reregister(p, f) }
    fn unregister(&mut self, p: &mut Poll) -> calloop::Result<()> { self.registered = false; self.ping.unregister(p) }
}
fn child(flag: &Rc<Cell<u32>>) -> Child { let (p, s) = make_ping().unwrap(); std::mem::forget(p); Child { ping: s, registered: false, dropped_registered: flag.clone() } }

fn run(second_is_remove: bool) {
    let flag = Rc::new(Cell::new(0));
    let el: EventLoop<()> = EventLoop::try_new().unwrap();
    let disp = Dispatcher::new(TransientSource::from(child(&flag)), |_, _, _| {});
    let tok = el.handle().register_dispatcher(disp.clone()).unwrap();
    disp.as_source_mut().replace(child(&flag));
    if second_is_remove { disp.as_source_mut().remove(); } else { disp.as_source_mut().replace(child(&flag)); }
    el.handle().update(&tok).unwrap();
    assert_eq!(flag.get(), 0, "a replaced child was dropped while it was still registered");
    el.handle().remove(tok);
    drop(disp);
    assert_eq!(flag.get(), 0);
}

#[test] fn d12_replace_twice() { run(false) }
#[test] fn d12_replace_then_remove() { run(true) }
