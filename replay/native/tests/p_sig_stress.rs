//! Scenarios for LoopSignal / run / block_on (C11).
use calloop::EventLoop;
use std::future::Future;
use std::pin::Pin;
use std::sync::atomic::{AtomicBool, AtomicU32, Ordering};
use std::sync::{mpsc, Arc};
use std::task::{Context, Poll};
use std::time::{Duration, Instant};

/// wakes itself during its own poll, `n` times, then completes
struct SelfWake(u32);
impl Future for SelfWake {
    type Output = u32;
    fn poll(mut self: Pin<&mut Self>, cx: &mut Context<'_>) -> Poll<u32> {
        if self.0 == 0 { return Poll::Ready(7); }
        self.0 -= 1;
        cx.waker().wake_by_ref();
        Poll::Pending
    }
}

#[test]
fn block_on_self_wake_during_poll() {
    let mut el: EventLoop<()> = EventLoop::try_new().unwrap();
    let sig = el.get_signal();
    let fired = Arc::new(AtomicBool::new(false));
    let f2 = fired.clone();
    let wd = std::thread::spawn(move || { std::thread::sleep(Duration::from_secs(3)); if !f2.load(Ordering::SeqCst) { sig.stop(); sig.wakeup(); } });
    let r = el.block_on(SelfWake(5), &mut (), |_| {}).unwrap();
    fired.store(true, Ordering::SeqCst);
    assert_eq!(r, Some(7), "a wake issued during the poll was lost (block_on only returned through the watchdog's stop)");
    drop(wd);
}

#[test]
fn block_on_cross_thread_wake_during_poll() {
    // the future hands its waker to another thread and waits (inside poll) until that thread has called wake()
    struct Handoff { tx: mpsc::Sender<std::task::Waker>, ack: mpsc::Receiver<()>, left: u32 }
    impl Future for Handoff {
        type Output = u32;
        fn poll(mut self: Pin<&mut Self>, cx: &mut Context<'_>) -> Poll<u32> {
            if self.left == 0 { return Poll::Ready(9); }
            self.left -= 1;
            self.tx.send(cx.waker().clone()).unwrap();
            self.ack.recv_timeout(Duration::from_secs(2)).unwrap(); // wake() has returned on the other thread
            Poll::Pending
        }
    }
    let (tx, rx) = mpsc::channel::<std::task::Waker>();
    let (atx, arx) = mpsc::channel::<()>();
    std::thread::spawn(move || { while let Ok(w) = rx.recv() { w.wake(); let _ = atx.send(()); } });
    let mut el: EventLoop<()> = EventLoop::try_new().unwrap();
    let sig = el.get_signal();
    let fired = Arc::new(AtomicBool::new(false));
    let f2 = fired.clone();
    std::thread::spawn(move || { std::thread::sleep(Duration::from_secs(4)); if !f2.load(Ordering::SeqCst) { sig.stop(); sig.wakeup(); } });
    let r = el.block_on(Handoff { tx, ack: arx, left: 20 }, &mut (), |_| {}).unwrap();
    fired.store(true, Ordering::SeqCst);
    assert_eq!(r, Some(9), "a wake from another thread during the poll was lost");
}

#[test]
fn block_on_stop_first_gives_none() {
    let mut el: EventLoop<()> = EventLoop::try_new().unwrap();
    let sig = el.get_signal();
    std::thread::spawn(move || { std::thread::sleep(Duration::from_millis(50)); sig.stop(); sig.wakeup(); });
    let r = el.block_on(std::future::pending::<u32>(), &mut (), |_| {}).unwrap();
    assert_eq!(r, None);
}

#[test]
fn stop_and_wakeup_end_run_promptly() {
    for delay_ms in [2u64, 5, 20, 50] {
        let mut el: EventLoop<()> = EventLoop::try_new().unwrap();
        let sig = el.get_signal();
        // a timer makes the first iteration return, so that run() is certainly past its initial reset
        el.handle().insert_source(calloop::timer::Timer::immediate(), |_, _, _| calloop::timer::TimeoutAction::Drop).unwrap();
        let th = std::thread::spawn(move || {
            std::thread::sleep(Duration::from_millis(delay_ms));
            sig.stop();
            sig.wakeup();
        });
        let t = Instant::now();
        let iters = AtomicU32::new(0);
        // run() with no timeout: only stop+wakeup can end it
        el.run(None, &mut (), |_| { iters.fetch_add(1, Ordering::SeqCst); }).unwrap();
        assert!(t.elapsed() < Duration::from_secs(5), "run() did not return after stop()+wakeup()");
        th.join().unwrap();
    }
}

#[test]
fn wakeup_before_wait_is_not_lost() {
    let mut el: EventLoop<()> = EventLoop::try_new().unwrap();
    let sig = el.get_signal();
    sig.wakeup(); // issued while no wait is in progress: the next wait returns at once
    let t = Instant::now();
    el.dispatch(Duration::from_secs(5), &mut ()).unwrap();
    assert!(t.elapsed() < Duration::from_secs(2), "a wake-up issued just before the wait was lost");
}

#[test]
fn block_on_stop_then_wake_gives_none() {
    // stop() is requested and THEN the future is woken (it would complete on its next poll): the stop
    // request came first, so block_on returns None
    use std::sync::atomic::AtomicBool as AB;
    struct ReadyWhen(Arc<AB>, Arc<std::sync::Mutex<Option<std::task::Waker>>>);
    impl Future for ReadyWhen {
        type Output = u32;
        fn poll(self: Pin<&mut Self>, cx: &mut Context<'_>) -> Poll<u32> {
            if self.0.load(Ordering::SeqCst) { return Poll::Ready(7); }
            *self.1.lock().unwrap() = Some(cx.waker().clone());
            Poll::Pending
        }
    }
    // from another thread
    let mut el: EventLoop<()> = EventLoop::try_new().unwrap();
    let sig = el.get_signal();
    let (flag, slot) = (Arc::new(AB::new(false)), Arc::new(std::sync::Mutex::new(None::<std::task::Waker>)));
    let (f2, s2) = (flag.clone(), slot.clone());
    std::thread::spawn(move || {
        std::thread::sleep(Duration::from_millis(100));
        sig.stop();
        f2.store(true, Ordering::SeqCst);
        if let Some(w) = s2.lock().unwrap().take() { w.wake(); }
    });
    let r = el.block_on(ReadyWhen(flag, slot), &mut (), |_| {}).unwrap();
    assert_eq!(r, None, "stop() was requested before the wake, block_on must return None");
    // from a source callback of the loop itself
    let mut el: EventLoop<()> = EventLoop::try_new().unwrap();
    let sig = el.get_signal();
    let (flag, slot) = (Arc::new(AB::new(false)), Arc::new(std::sync::Mutex::new(None::<std::task::Waker>)));
    let (f2, s2) = (flag.clone(), slot.clone());
    el.handle().insert_source(calloop::timer::Timer::from_duration(Duration::from_millis(30)), move |_, _, _| {
        sig.stop();
        f2.store(true, Ordering::SeqCst);
        if let Some(w) = s2.lock().unwrap().take() { w.wake(); }
        calloop::timer::TimeoutAction::Drop
    }).unwrap();
    let r = el.block_on(ReadyWhen(flag, slot), &mut (), |_| {}).unwrap();
    assert_eq!(r, None, "stop() requested from a callback before the wake: None");
}

/// a wake-up must cut the wait short also when a timer is armed and its deadline is what bounds the wait
#[test]
fn wakeup_and_stop_are_prompt_while_a_timer_bounds_the_wait() {
    use calloop::timer::{TimeoutAction, Timer};
    // (1) wake-up issued before the wait begins
    let mut el: EventLoop<u32> = EventLoop::try_new().unwrap();
    el.handle().insert_source(Timer::from_duration(Duration::from_secs(3)), |_, _, n: &mut u32| { *n += 1; TimeoutAction::Drop }).unwrap();
    el.get_signal().wakeup();
    let mut n = 0;
    let t = Instant::now();
    el.dispatch(None, &mut n).unwrap();
    assert!(t.elapsed() < Duration::from_secs(1), "wakeup() before dispatch(None) did not end the wait ({:?})", t.elapsed());
    assert_eq!(n, 0);
    // (2) wake-up from another thread during the wait
    let sig = el.get_signal();
    let th = std::thread::spawn(move || { std::thread::sleep(Duration::from_millis(100)); sig.wakeup(); });
    let t = Instant::now();
    el.dispatch(Duration::from_secs(10), &mut n).unwrap();
    assert!(t.elapsed() < Duration::from_secs(1), "wakeup() during the wait did not end it ({:?})", t.elapsed());
    th.join().unwrap();
    // (3) stop + wakeup end run()
    let sig = el.get_signal();
    let th = std::thread::spawn(move || { std::thread::sleep(Duration::from_millis(100)); sig.stop(); sig.wakeup(); });
    let t = Instant::now();
    el.run(None, &mut n, |_| {}).unwrap();
    assert!(t.elapsed() < Duration::from_secs(1), "stop()+wakeup() did not end run() ({:?})", t.elapsed());
    th.join().unwrap();
    assert_eq!(n, 0, "the 3 s timer fired early");
}

/// a wake-up issued between the return of a woken wait and the start of the next wait is not lost
#[test]
fn a_wakeup_issued_between_two_waits_cuts_the_next_one_short() {
    let mut el: EventLoop<u32> = EventLoop::try_new().unwrap();
    for _round in 0..3 {
        // W1 ends a blocked wait
        let sig = el.get_signal();
        let th = std::thread::spawn(move || { std::thread::sleep(Duration::from_millis(50)); sig.wakeup(); });
        let mut n = 0;
        el.dispatch(None, &mut n).unwrap();
        th.join().unwrap();
        // W2 is issued while no wait is in progress: the NEXT wait must return promptly
        el.get_signal().wakeup();
        let t = Instant::now();
        el.dispatch(Duration::from_secs(3), &mut n).unwrap();
        assert!(t.elapsed() < Duration::from_secs(1), "a wakeup() issued between two waits was lost ({:?})", t.elapsed());
    }
    // the same from the per-iteration closure of run()
    let sig = el.get_signal();
    let th = std::thread::spawn({ let sig = sig.clone(); move || { std::thread::sleep(Duration::from_millis(50)); sig.wakeup(); } });
    let mut iterations = 0u32;
    let t = Instant::now();
    el.run(Duration::from_secs(3), &mut iterations, |it| {
        *it += 1;
        if *it == 1 { sig.wakeup(); }           // woken iteration asks for another prompt one
        if *it == 2 { sig.stop(); sig.wakeup(); }
    }).unwrap();
    th.join().unwrap();
    assert!(t.elapsed() < Duration::from_secs(2), "run() slept through a wakeup() issued from a woken iteration ({:?})", t.elapsed());
}

/// round 9 (seed C11-5): a stop request that no run() was there to see (issued before run(), from a callback of a plain
/// dispatch(), or a second stop in the iteration that already ends the run) must not end the NEXT run(): run() never
/// returns Ok without a stop request made while it runs.
#[test]
fn a_stale_stop_does_not_end_the_next_run() {
    for variant in 0..3u8 {
        let mut el: EventLoop<u32> = EventLoop::try_new().unwrap();
        let sig = el.get_signal();
        match variant {
            0 => sig.stop(),                                   // nobody is running
            1 => {                                             // requested from an idle of a plain dispatch()
                let s2 = sig.clone();
                el.handle().insert_idle(move |_| s2.stop());
                el.dispatch(Some(Duration::ZERO), &mut 0).unwrap();
            }
            _ => {                                             // a run that was stopped twice in its last iteration
                let s2 = sig.clone();
                el.run(Some(Duration::from_millis(1)), &mut 0, move |_| { s2.stop(); s2.stop(); }).unwrap();
            }
        }
        let mut iterations = 0u32;
        let s3 = sig.clone();
        el.run(Some(Duration::from_millis(1)), &mut iterations, move |it| { *it += 1; if *it == 3 { s3.stop(); } }).unwrap();
        assert_eq!(iterations, 3, "variant {}: run() ended after {} iteration(s) on a stop request that predates it", variant, iterations);
    }
}
