//! Timer scenarios (C05): never early, exactly once per arming, cancelled armings never fire,
//! re-arming replaces the old arming -- with several timers in the wheel and re-arming in both
//! directions.  (The in-flight re-arm of D4 is d4_*.)
use calloop::timer::{TimeoutAction, Timer};
use calloop::{Dispatcher, EventLoop};
use std::time::{Duration, Instant};

type Log = Vec<(u8, Instant, Instant)>; // (timer id, reported deadline, time of the callback)

fn timer(el: &EventLoop<'static, Log>, id: u8, deadline: Instant) -> (Dispatcher<'static, Timer, Log>, calloop::RegistrationToken) {
    let d = Dispatcher::new(Timer::from_deadline(deadline), move |dl, _, log: &mut Log| { log.push((id, dl, Instant::now())); TimeoutAction::Drop });
    let t = el.handle().register_dispatcher(d.clone()).unwrap();
    (d, t)
}

fn run_for(el: &mut EventLoop<'static, Log>, log: &mut Log, d: Duration) {
    let end = Instant::now() + d;
    while Instant::now() < end { el.dispatch(Duration::from_millis(5), log).unwrap(); }
}

fn check_never_early(log: &Log) {
    for (id, dl, at) in log { assert!(at >= dl, "timer {} fired {:?} before the deadline it reported", id, *dl - *at); }
}

#[test]
fn move_deadline_earlier_than_another_timer() {
    let mut el: EventLoop<Log> = EventLoop::try_new().unwrap();
    let now = Instant::now();
    let (_a, _ta) = timer(&el, 1, now + Duration::from_millis(150));       // the front-most entry
    let (b, tb) = timer(&el, 2, now + Duration::from_secs(60));            // behind it
    // re-arm B to fire BEFORE A
    b.as_source_mut().set_deadline(now + Duration::from_millis(60));
    el.handle().update(&tb).unwrap();
    let mut log = Log::new();
    run_for(&mut el, &mut log, Duration::from_millis(400));
    check_never_early(&log);
    let ids: Vec<u8> = log.iter().map(|l| l.0).collect();
    assert_eq!(ids, vec![2, 1], "both fire exactly once, in deadline order");
    assert_eq!(log[0].1, now + Duration::from_millis(60), "B reports its new deadline");
}

#[test]
fn move_deadline_later() {
    let mut el: EventLoop<Log> = EventLoop::try_new().unwrap();
    let now = Instant::now();
    let (a, ta) = timer(&el, 1, now + Duration::from_millis(50));
    let (_b, _tb) = timer(&el, 2, now + Duration::from_millis(100));
    a.as_source_mut().set_deadline(now + Duration::from_millis(200));
    el.handle().update(&ta).unwrap();
    let mut log = Log::new();
    run_for(&mut el, &mut log, Duration::from_millis(150));
    assert_eq!(log.iter().map(|l| l.0).collect::<Vec<_>>(), vec![2], "the old arming of A must not fire");
    run_for(&mut el, &mut log, Duration::from_millis(150));
    check_never_early(&log);
    assert_eq!(log.iter().map(|l| l.0).collect::<Vec<_>>(), vec![2, 1]);
}

#[test]
fn cancelled_armings_never_fire_and_leave_no_residue() {
    let mut el: EventLoop<Log> = EventLoop::try_new().unwrap();
    let now = Instant::now();
    let (_a, ta) = timer(&el, 1, now + Duration::from_millis(40));
    let (_b, tb) = timer(&el, 2, now + Duration::from_millis(60));
    let (_c, _tc) = timer(&el, 3, now + Duration::from_millis(80));
    el.handle().disable(&tb).unwrap();       // behind the front entry: slow path of cancel
    el.handle().remove(ta);                  // front entry: fast path
    let mut log = Log::new();
    run_for(&mut el, &mut log, Duration::from_millis(200));
    check_never_early(&log);
    assert_eq!(log.iter().map(|l| l.0).collect::<Vec<_>>(), vec![3]);
    // re-enable: B's retained (now past) deadline fires once, at once
    el.handle().enable(&tb).unwrap();
    run_for(&mut el, &mut log, Duration::from_millis(50));
    assert_eq!(log.iter().map(|l| l.0).collect::<Vec<_>>(), vec![3, 2]);
    // nothing is left: a dispatch with a long timeout sleeps its full timeout
    let t = Instant::now();
    el.dispatch(Duration::from_millis(120), &mut log).unwrap();
    assert!(t.elapsed() >= Duration::from_millis(110), "a stale wheel entry shortened the wait");
    assert_eq!(log.len(), 2);
}

#[test]
fn equal_deadlines_and_reschedule() {
    let mut el: EventLoop<Log> = EventLoop::try_new().unwrap();
    let now = Instant::now();
    let dl = now + Duration::from_millis(30);
    let (_a, _) = timer(&el, 1, dl);
    let (_b, _) = timer(&el, 2, dl);
    let mut fired = 0u32;
    let start = Instant::now();
    el.handle().insert_source(Timer::from_duration(Duration::from_millis(20)), move |_, _, _| {
        fired += 1;
        if fired < 3 { TimeoutAction::ToDuration(Duration::from_millis(20)) } else { TimeoutAction::Drop }
    }).unwrap();
    let mut log = Log::new();
    run_for(&mut el, &mut log, Duration::from_millis(150));
    check_never_early(&log);
    assert_eq!(log.len(), 2);
    assert!(start.elapsed() >= Duration::from_millis(60));
}

#[test]
fn rearming_earlier_leaves_no_stale_arming() {
    // A in front, B behind it; B is re-armed to fire before A. B's OLD arming (at +400 ms) must be gone:
    // nothing may fire or cut a wait short at +400 ms.
    let mut el: EventLoop<Log> = EventLoop::try_new().unwrap();
    let now = Instant::now();
    let (_a, _ta) = timer(&el, 1, now + Duration::from_millis(150));
    let (b, tb) = timer(&el, 2, now + Duration::from_millis(400));
    b.as_source_mut().set_deadline(now + Duration::from_millis(60));
    el.handle().update(&tb).unwrap();
    let mut log = Log::new();
    run_for(&mut el, &mut log, Duration::from_millis(250));
    assert_eq!(log.iter().map(|l| l.0).collect::<Vec<_>>(), vec![2, 1]);
    let t = Instant::now();
    el.dispatch(Duration::from_millis(400), &mut log).unwrap(); // spans the old deadline
    assert!(t.elapsed() >= Duration::from_millis(390), "the cancelled arming woke the loop after {:?}", t.elapsed());
    assert_eq!(log.len(), 2);
}

#[test]
fn rearming_earlier_then_rescheduling_never_fires_early() {
    // as above, but B reschedules itself far into the future when it fires: a surviving old arming
    // would fire it again, long before that deadline
    let mut el: EventLoop<Log> = EventLoop::try_new().unwrap();
    let now = Instant::now();
    let (_a, _ta) = timer(&el, 1, now + Duration::from_millis(150));
    let d = Dispatcher::new(Timer::from_deadline(now + Duration::from_millis(300)), move |dl, _, log: &mut Log| {
        log.push((2, dl, Instant::now()));
        TimeoutAction::ToInstant(Instant::now() + Duration::from_secs(600))
    });
    let tb = el.handle().register_dispatcher(d.clone()).unwrap();
    d.as_source_mut().set_deadline(now + Duration::from_millis(60));
    el.handle().update(&tb).unwrap();
    let mut log = Log::new();
    run_for(&mut el, &mut log, Duration::from_millis(450));
    check_never_early(&log);
    assert_eq!(log.iter().map(|l| l.0).collect::<Vec<_>>(), vec![2, 1], "B fires once (its re-armed deadline), A once");
}

#[test]
fn removing_an_expired_but_undispatched_timer_leaves_nothing() {
    // the timer is due but no dispatch has happened yet; removing/disabling it must cancel the arming
    for disable in [false, true] {
        let mut el: EventLoop<Log> = EventLoop::try_new().unwrap();
        let (_a, ta) = timer(&el, 1, Instant::now());
        std::thread::sleep(Duration::from_millis(5));
        if disable { el.handle().disable(&ta).unwrap(); } else { el.handle().remove(ta); }
        let mut log = Log::new();
        let t = Instant::now();
        el.dispatch(Duration::from_millis(150), &mut log).unwrap();
        assert!(log.is_empty(), "a cancelled arming fired");
        assert!(t.elapsed() >= Duration::from_millis(140), "dispatch returned after {:?}: a cancelled arming is still in the wheel", t.elapsed());
    }
}

#[test]
fn rearming_to_an_unrepresentable_deadline_cancels_the_pending_one() {
    // a pending timer is re-programmed to a deadline that overflows Instant (nothing is armed any more) and
    // re-registered: its old deadline must not stay in the wheel and cut later waits short
    let mut el: EventLoop<'static, Log> = EventLoop::try_new().unwrap();
    let (d, tok) = timer(&el, 1, Instant::now() + Duration::from_millis(80));
    d.as_source_mut().set_duration(Duration::MAX);
    assert!(d.as_source_ref().current_deadline().is_none());
    el.handle().update(&tok).unwrap();
    let mut log = Log::default();
    let t = Instant::now();
    el.dispatch(Duration::from_millis(300), &mut log).unwrap();
    assert!(t.elapsed() >= Duration::from_millis(290), "the wait was cut short at the cancelled deadline ({:?})", t.elapsed());
    assert!(log.is_empty(), "a timer without a deadline fired");
    // re-arming it afterwards works
    d.as_source_mut().set_duration(Duration::from_millis(10));
    el.handle().update(&tok).unwrap();
    run_for(&mut el, &mut log, Duration::from_millis(100));
    assert_eq!(log.len(), 1);
    check_never_early(&log);
}

#[test]
fn timers_inserted_while_expired_timers_are_still_being_dispatched_all_fire_once() {
    // two one-shot timers are due in the same dispatch (both already popped from the wheel when the callbacks run);
    // the first is dropped, the second inserts two new timers and is dropped as well: dropping a timer whose entry
    // is no longer in the wheel must not disturb the timers armed meanwhile
    let mut el: EventLoop<'static, Log> = EventLoop::try_new().unwrap();
    let h = el.handle();
    let now = Instant::now();
    h.insert_source(Timer::from_deadline(now), |dl, _, log: &mut Log| { log.push((1, dl, Instant::now())); TimeoutAction::Drop }).unwrap();
    let h2 = h.clone();
    h.insert_source(Timer::from_deadline(now + Duration::from_millis(1)), move |dl, _, log: &mut Log| {
        log.push((2, dl, Instant::now()));
        for id in [3u8, 4u8] {
            h2.insert_source(Timer::from_duration(Duration::from_millis(30)), move |dl, _, log: &mut Log| { log.push((id, dl, Instant::now())); TimeoutAction::Drop }).unwrap();
        }
        TimeoutAction::Drop
    }).unwrap();
    std::thread::sleep(Duration::from_millis(5));
    let mut log = Log::default();
    run_for(&mut el, &mut log, Duration::from_millis(150));
    let mut ids: Vec<u8> = log.iter().map(|e| e.0).collect();
    ids.sort();
    assert_eq!(ids, vec![1, 2, 3, 4], "every arming fires exactly once");
    check_never_early(&log);
    // and a repeating timer keeps ticking when a timer armed during its dispatch is removed later
    let mut el: EventLoop<'static, Log> = EventLoop::try_new().unwrap();
    let h = el.handle();
    let h2 = h.clone();
    let wd: std::rc::Rc<std::cell::Cell<Option<calloop::RegistrationToken>>> = Default::default();
    let wd2 = wd.clone();
    h.insert_source(Timer::from_duration(Duration::from_millis(5)), move |dl, _, log: &mut Log| {
        log.push((1, dl, Instant::now()));
        if wd2.get().is_none() {
            wd2.set(Some(h2.insert_source(Timer::from_duration(Duration::from_secs(3600)), |_, _, _| TimeoutAction::Drop).unwrap()));
        }
        TimeoutAction::ToDuration(Duration::from_millis(10))
    }).unwrap();
    let mut log = Log::default();
    run_for(&mut el, &mut log, Duration::from_millis(40));
    let before = log.len();
    assert!(before >= 2);
    h.remove(wd.get().unwrap());
    run_for(&mut el, &mut log, Duration::from_millis(60));
    assert!(log.len() >= before + 3, "removing another timer stopped the repeating one ({} -> {})", before, log.len());
}

#[test]
fn time_spent_in_before_sleep_does_not_delay_the_timer_that_bounds_the_wait() {
    use calloop::ping::{make_ping, PingSource};
    use calloop::{EventIterator, EventSource, Poll, PostAction, Readiness, Token, TokenFactory};
    struct Slow(PingSource, Duration);
    impl EventSource for Slow {
        type Event = ();
        type Metadata = ();
        type Ret = ();
        type Error = Box<dyn std::error::Error + Sync + Send>;
        const NEEDS_EXTRA_LIFECYCLE_EVENTS: bool = true;
        fn process_events<F>(&mut self, r: Readiness, t: Token, cb: F) -> Result<PostAction, Self::Error> where F: FnMut((), &mut ()) { Ok(self.0.process_events(r, t, cb)?) }
        fn register(&mut self, p: &mut Poll, f: &mut TokenFactory) -> calloop::Result<()> { self.0.register(p, f) }
        fn reregister(&mut self, p: &mut Poll, f: &mut TokenFactory) -> calloop::Result<()> { self.0.reregister(p, f) }
        fn unregister(&mut self, p: &mut Poll) -> calloop::Result<()> { self.0.unregister(p) }
        fn before_sleep(&mut self) -> calloop::Result<Option<(Readiness, Token)>> { std::thread::sleep(self.1); Ok(None) }
        fn before_handle_events(&mut self, _: EventIterator<'_>) {}
    }
    for (hook, timer, limit) in [(200u64, 300u64, 420u64), (300, 100, 400)] {
        let mut el: EventLoop<'static, Log> = EventLoop::try_new().unwrap();
        let (_p, s) = make_ping().unwrap();
        el.handle().insert_source(Slow(s, Duration::from_millis(hook)), |_, _, _| {}).unwrap();
        let (_d, _t) = timer_at(&el, Instant::now() + Duration::from_millis(timer));
        let mut log = Log::default();
        let t = Instant::now();
        el.dispatch(None, &mut log).unwrap();
        let e = t.elapsed();
        assert_eq!(log.len(), 1, "the timer that bounded the wait fired in that dispatch");
        assert!(e >= Duration::from_millis(timer.max(hook)) && e < Duration::from_millis(limit),
            "hook {} ms, timer {} ms out: dispatch(None) took {:?} (the time spent in before_sleep was added to the wait)", hook, timer, e);
        check_never_early(&log);
    }
}
fn timer_at(el: &EventLoop<'static, Log>, deadline: Instant) -> (Dispatcher<'static, Timer, Log>, calloop::RegistrationToken) { timer(el, 1, deadline) }

#[test]
fn rearming_to_the_deadline_of_the_first_registration_after_a_reschedule_takes_effect() {
    // registered for d0; fires and reschedules itself far away; then set_deadline(d0) (the very Instant of the first
    // registration, now in the past) + update: that arming fires at once, the far-away one is cancelled
    let mut el: EventLoop<'static, Log> = EventLoop::try_new().unwrap();
    let d0 = Instant::now() + Duration::from_millis(20);
    let far = d0 + Duration::from_secs(3600);
    let d = Dispatcher::new(Timer::from_deadline(d0), move |dl, _, log: &mut Log| {
        log.push((1, dl, Instant::now()));
        if log.len() == 1 { TimeoutAction::ToInstant(far) } else { TimeoutAction::Drop }
    });
    let tok = el.handle().register_dispatcher(d.clone()).unwrap();
    let mut log = Log::default();
    run_for(&mut el, &mut log, Duration::from_millis(60));
    assert_eq!(log.len(), 1);
    d.as_source_mut().set_deadline(d0);
    el.handle().update(&tok).unwrap();
    run_for(&mut el, &mut log, Duration::from_millis(60));
    assert_eq!(log.len(), 2, "the arming made by set_deadline + update never fired");
    assert!(log[1].1 == d0);
    check_never_early(&log);
}

/// round 9 (seed C12-6): a timer that re-armed itself from its callback is then removed / disabled: its re-armed entry is
/// cancelled with it -- it neither fires nor cuts a later wait short
#[test]
fn a_rearmed_timer_that_is_removed_or_disabled_leaves_nothing_in_the_wheel() {
    for variant in 0..3u8 {
        let mut el: EventLoop<u32> = EventLoop::try_new().unwrap();
        let h = el.handle();
        let tok = h.insert_source(Timer::from_duration(Duration::from_millis(10)), move |_, _, n: &mut u32| {
            *n += 1;
            if variant == 1 { TimeoutAction::ToInstant(Instant::now() + Duration::from_millis(100)) } else { TimeoutAction::ToDuration(Duration::from_millis(100)) }
        }).unwrap();
        let mut n = 0;
        el.dispatch(Duration::from_millis(200), &mut n).unwrap();
        assert_eq!(n, 1);
        if variant == 2 { h.disable(&tok).unwrap(); } else { h.remove(tok); }
        let t = Instant::now();
        el.dispatch(Duration::from_millis(400), &mut n).unwrap();
        assert_eq!(n, 1, "variant {}: a removed/disabled timer fired", variant);
        assert!(t.elapsed() >= Duration::from_millis(390), "variant {}: dispatch returned after {:?} although nothing was armed (timeout 400 ms)", variant, t.elapsed());
    }
}
