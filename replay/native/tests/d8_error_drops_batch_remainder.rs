//! D8 (C15): when one source's processing fails, dispatch returns the error at once and the rest of
//! the collected batch is dropped.  Level-triggered fds are reported again, but an expired timer
//! that was already popped from the wheel for this batch never fires.
use calloop::ping::{make_ping, PingSource};
use calloop::timer::{TimeoutAction, Timer};
use calloop::{EventLoop, EventSource, Poll, PostAction, Readiness, Token, TokenFactory};
use std::time::Duration;

struct Failing(PingSource);
impl EventSource for Failing {
    type Event = ();
    type Metadata = ();
    type Ret = ();
    type Error = Box<dyn std::error::Error + Sync + Send>;
    fn process_events<F>(&mut self, r: Readiness, t: Token, cb: F) -> Result<PostAction, Self::Error>
    where
        F: FnMut((), &mut ()),
    {
        self.0.process_events(r, t, cb)?;
        Err("processing failed".into())
    }
    fn register(&mut self, p: &mut Poll, f: &mut TokenFactory) -> calloop::Result<()> { self.0.register(p, f) }
    fn reregister(&mut self, p: &mut Poll, f: &mut TokenFactory) -> calloop::Result<()> { self.0.reregister(p, f) }
    fn unregister(&mut self, p: &mut Poll) -> calloop::Result<()> { self.0.unregister(p) }
}

#[test]
fn d8_timer_survives_another_sources_error() {
    let mut el: EventLoop<u32> = EventLoop::try_new().unwrap();
    let (p, s) = make_ping().unwrap();
    el.handle().insert_source(Failing(s), |_, _, _| {}).unwrap();
    el.handle().insert_source(Timer::from_duration(Duration::from_millis(10)), |_, _, fired: &mut u32| { *fired += 1; TimeoutAction::Drop }).unwrap();
    std::thread::sleep(Duration::from_millis(30)); // the timer is due
    p.ping();                                       // and the failing source is ready: same batch
    let mut fired = 0u32;
    let r = el.dispatch(Duration::ZERO, &mut fired);
    assert!(r.is_err(), "the processing error is reported");
    // the loop stays usable and the armed, expired timer still fires
    for _ in 0..5 { let _ = el.dispatch(Duration::from_millis(20), &mut fired); }
    assert_eq!(fired, 1, "an armed timer was lost because another source failed in the same dispatch");
}

/// a source whose processing is fine but whose requested re-registration fails
struct FailingReregister(PingSource);
impl EventSource for FailingReregister {
    type Event = ();
    type Metadata = ();
    type Ret = ();
    type Error = Box<dyn std::error::Error + Sync + Send>;
    fn process_events<F>(&mut self, r: Readiness, t: Token, cb: F) -> Result<PostAction, Self::Error>
    where
        F: FnMut((), &mut ()),
    {
        self.0.process_events(r, t, cb)?;
        Ok(PostAction::Reregister)
    }
    fn register(&mut self, p: &mut Poll, f: &mut TokenFactory) -> calloop::Result<()> { self.0.register(p, f) }
    fn reregister(&mut self, _: &mut Poll, _: &mut TokenFactory) -> calloop::Result<()> {
        Err(calloop::Error::OtherError("re-registration failed".into()))
    }
    fn unregister(&mut self, p: &mut Poll) -> calloop::Result<()> { self.0.unregister(p) }
}

#[test]
fn d8_timer_survives_another_sources_failing_post_action() {
    let mut el: EventLoop<u32> = EventLoop::try_new().unwrap();
    let (p, s) = make_ping().unwrap();
    el.handle().insert_source(FailingReregister(s), |_, _, _| {}).unwrap();
    el.handle().insert_source(Timer::from_duration(Duration::from_millis(10)), |_, _, fired: &mut u32| { *fired += 1; TimeoutAction::Drop }).unwrap();
    std::thread::sleep(Duration::from_millis(30));
    p.ping();
    let mut fired = 0u32;
    let r = el.dispatch(Duration::ZERO, &mut fired);
    assert!(r.is_err(), "the failing re-registration is reported");
    for _ in 0..5 { let _ = el.dispatch(Duration::from_millis(20), &mut fired); }
    assert_eq!(fired, 1, "an armed timer was lost because another source's post-action failed in the same dispatch");
}

#[test]
fn d8_two_failing_sources_are_both_processed_and_an_error_is_reported() {
    let mut el: EventLoop<u32> = EventLoop::try_new().unwrap();
    let (p1, s1) = make_ping().unwrap();
    let (p2, s2) = make_ping().unwrap();
    el.handle().insert_source(Failing(s1), |_, _, n: &mut u32| { *n += 1; }).unwrap();
    el.handle().insert_source(Failing(s2), |_, _, n: &mut u32| { *n += 10; }).unwrap();
    p1.ping();
    p2.ping();
    std::thread::sleep(Duration::from_millis(10));
    let mut n = 0u32;
    assert!(el.dispatch(Duration::ZERO, &mut n).is_err());
    // edge-triggered eventfds: what was not dispatched in that batch is not reported again
    for _ in 0..3 { let _ = el.dispatch(Duration::from_millis(10), &mut n); }
    assert_eq!(n, 11, "each ping is delivered exactly once although both sources failed");
    // the loop is still usable
    p1.ping();
    assert!(el.dispatch(Duration::from_millis(100), &mut n).is_err());
    assert_eq!(n, 12);
}
