//! Routing scenarios (C01, C02, C07, C12): callbacks only for a source's own live registration; a source
//! disabled by another callback of the same batch is not called; immediate slot reuse does not
//! misroute; pending readiness is dispatched even when a timer is due; waits are not cut short.
use calloop::channel::{channel, Event};
use calloop::generic::Generic;
use calloop::ping::make_ping;
use calloop::timer::{TimeoutAction, Timer};
use calloop::{EventLoop, Interest, Mode, PostAction, RegistrationToken};
use std::cell::Cell;
use std::io::Write;
use std::os::unix::net::UnixStream;
use std::rc::Rc;
use std::time::{Duration, Instant};

#[test]
fn source_disabled_by_a_sibling_in_the_same_batch_is_not_called() {
    // symmetric: whichever of the two is dispatched first disables the other
    let mut el: EventLoop<[u32; 2]> = EventLoop::try_new().unwrap();
    let h = el.handle();
    let toks: Rc<[Cell<Option<RegistrationToken>>; 2]> = Rc::new([Cell::new(None), Cell::new(None)]);
    let mut pings = vec![];
    for i in 0..2usize {
        let (p, s) = make_ping().unwrap();
        let (h2, t2) = (h.clone(), toks.clone());
        let t = h.insert_source(s, move |_, _, n: &mut [u32; 2]| { n[i] += 1; let _ = h2.disable(&t2[1 - i].get().unwrap()); }).unwrap();
        toks[i].set(Some(t));
        pings.push(p);
    }
    pings[0].ping();
    pings[1].ping();
    let mut n = [0u32; 2];
    el.dispatch(Duration::ZERO, &mut n).unwrap();
    assert_eq!(n[0] + n[1], 1, "the source disabled earlier in the batch was still called");
    el.dispatch(Duration::ZERO, &mut n).unwrap();
    assert_eq!(n[0] + n[1], 1, "a disabled source was called in a later dispatch");
    // readiness survives the gap
    let off = if n[0] == 1 { 1 } else { 0 };
    h.enable(&toks[off].get().unwrap()).unwrap();
    el.dispatch(Duration::ZERO, &mut n).unwrap();
    assert_eq!(n[off], 1, "the pending ping is delivered after enable()");
}

#[test]
fn channel_disabled_by_a_sibling_keeps_its_message() {
    let mut el: EventLoop<Vec<u32>> = EventLoop::try_new().unwrap();
    let h = el.handle();
    let (tx, rx) = channel::<u32>();
    let tok_c = h.insert_source(rx, |e, _, v: &mut Vec<u32>| if let Event::Msg(m) = e { v.push(m) }).unwrap();
    let h2 = h.clone();
    h.insert_source(Timer::immediate(), move |_, _, _| { h2.disable(&tok_c).unwrap(); TimeoutAction::Drop }).unwrap();
    // make the timer event come first is not controllable; do it in two dispatches instead
    let mut v = vec![];
    el.dispatch(Duration::ZERO, &mut v).unwrap(); // timer fires, channel disabled
    tx.send(5).unwrap();
    el.dispatch(Duration::from_millis(20), &mut v).unwrap();
    assert!(v.is_empty(), "a disabled channel delivered a message");
    h.enable(&tok_c).unwrap();
    el.dispatch(Duration::from_millis(100), &mut v).unwrap();
    assert_eq!(v, vec![5]);
}

#[test]
fn ready_fd_and_ping_are_dispatched_even_when_a_timer_is_due() {
    let mut el: EventLoop<(u32, u32, u32)> = EventLoop::try_new().unwrap();
    let h = el.handle();
    let (p, s) = make_ping().unwrap();
    h.insert_source(s, |_, _, n: &mut (u32, u32, u32)| n.0 += 1).unwrap();
    let (a, mut peer) = UnixStream::pair().unwrap();
    h.insert_source(Generic::new(a, Interest::READ, Mode::Level), |_, _, n: &mut (u32, u32, u32)| { n.1 += 1; Ok(PostAction::Continue) }).unwrap();
    h.insert_source(Timer::immediate(), |_, _, n: &mut (u32, u32, u32)| { n.2 += 1; TimeoutAction::ToDuration(Duration::ZERO) }).unwrap();
    std::thread::sleep(Duration::from_millis(2));
    p.ping();
    peer.write_all(b"x").unwrap();
    let mut n = (0, 0, 0);
    el.dispatch(Duration::ZERO, &mut n).unwrap();
    assert_eq!((n.0, n.1), (1, 1), "pending readiness not dispatched in a dispatch that also fired a timer");
    assert_eq!(n.2, 1, "a due timer did not fire in the dispatch that polled after its deadline (I/O was ready too)");
    for _ in 0..5 { el.dispatch(Duration::ZERO, &mut n).unwrap(); }
    assert_eq!(n.1, 6, "a level-triggered fd is reported on every dispatch while ready (busy timer must not starve it)");
}

#[test]
fn dispatch_waits_its_timeout_when_nothing_is_pending() {
    let mut el: EventLoop<()> = EventLoop::try_new().unwrap();
    let h = el.handle();
    // leftovers that must not shorten the wait: a fired+dropped timer, a removed timer, a far timer
    h.insert_source(Timer::immediate(), |_, _, _| TimeoutAction::Drop).unwrap();
    el.dispatch(Duration::ZERO, &mut ()).unwrap();
    let t = h.insert_source(Timer::from_duration(Duration::from_millis(30)), |_, _, _| TimeoutAction::Drop).unwrap();
    h.remove(t);
    h.insert_source(Timer::from_duration(Duration::from_secs(3600)), |_, _, _| TimeoutAction::Drop).unwrap();
    let t0 = Instant::now();
    el.dispatch(Duration::from_millis(150), &mut ()).unwrap();
    assert!(t0.elapsed() >= Duration::from_millis(140), "dispatch returned after {:?} with nothing pending", t0.elapsed());
    assert!(t0.elapsed() < Duration::from_millis(1500));
    // the earliest armed timer bounds the wait and fires
    let mut fired = false;
    let mut el2: EventLoop<bool> = EventLoop::try_new().unwrap();
    el2.handle().insert_source(Timer::from_duration(Duration::from_millis(40)), |_, _, f: &mut bool| { *f = true; TimeoutAction::Drop }).unwrap();
    let t1 = Instant::now();
    el2.dispatch(Duration::from_secs(5), &mut fired).unwrap();
    assert!(fired && t1.elapsed() >= Duration::from_millis(40) && t1.elapsed() < Duration::from_secs(2));
}

#[test]
fn immediate_slot_reuse_does_not_misroute() {
    let mut el: EventLoop<Vec<&'static str>> = EventLoop::try_new().unwrap();
    let h = el.handle();
    let (p_old, s_old) = make_ping().unwrap();
    let t_old = h.insert_source(s_old, |_, _, v: &mut Vec<&'static str>| v.push("old")).unwrap();
    p_old.ping(); // pending for the old source
    h.remove(t_old);
    let (p_new, s_new) = make_ping().unwrap();
    let _t_new = h.insert_source(s_new, |_, _, v: &mut Vec<&'static str>| v.push("new")).unwrap();
    let mut v = vec![];
    el.dispatch(Duration::ZERO, &mut v).unwrap();
    assert!(v.is_empty(), "an event of the removed source reached someone: {:?}", v);
    p_new.ping();
    el.dispatch(Duration::ZERO, &mut v).unwrap();
    assert_eq!(v, vec!["new"]);
    assert!(h.enable(&t_old).is_err() && h.disable(&t_old).is_err() && h.update(&t_old).is_err(), "dead token accepted");
    h.remove(t_old); // no-op: must not remove the new source
    p_new.ping();
    el.dispatch(Duration::ZERO, &mut v).unwrap();
    assert_eq!(v, vec!["new", "new"]);
}

#[test]
fn timer_disabled_earlier_in_the_same_batch_does_not_fire() {
    // fd events precede expired timers in a batch: the ping callback disables the (already collected) timer
    let mut el: EventLoop<(u32, u32)> = EventLoop::try_new().unwrap();
    let h = el.handle();
    let t = h.insert_source(Timer::immediate(), |_, _, n: &mut (u32, u32)| { n.1 += 1; TimeoutAction::ToDuration(Duration::from_millis(1)) }).unwrap();
    let (p, s) = make_ping().unwrap();
    let h2 = h.clone();
    h.insert_source(s, move |_, _, n: &mut (u32, u32)| { n.0 += 1; let _ = h2.disable(&t); }).unwrap();
    std::thread::sleep(Duration::from_millis(3));
    p.ping();
    let mut n = (0, 0);
    el.dispatch(Duration::ZERO, &mut n).unwrap();
    assert_eq!(n.0, 1);
    for _ in 0..3 { el.dispatch(Duration::from_millis(5), &mut n).unwrap(); }
    assert_eq!(n.1, 0, "a timer disabled earlier in the batch (or afterwards) had its callback invoked");
    h.enable(&t).unwrap();
    el.dispatch(Duration::from_millis(20), &mut n).unwrap();
    assert!(n.1 >= 1, "the retained deadline fires after enable()");
}

#[test]
fn dead_token_stays_dead_across_65535_reuses_of_its_slot() {
    let el: EventLoop<()> = EventLoop::try_new().unwrap();
    let h = el.handle();
    let first = h.insert_source(Timer::from_duration(Duration::from_secs(3600)), |_, _, _| TimeoutAction::Drop).unwrap();
    h.remove(first);
    let mut seen = std::collections::HashSet::new();
    seen.insert(format!("{:?}", first));
    for i in 0..65535u32 {
        let t = h.insert_source(Timer::from_duration(Duration::from_secs(3600)), |_, _, _| TimeoutAction::Drop).unwrap();
        assert!(t != first, "the token of a removed source came back to life after {} reuses of its slot", i + 1);
        assert!(h.enable(&first).is_err() && h.disable(&first).is_err() && h.update(&first).is_err(),
            "a dead token was accepted after {} reuses of its slot", i + 1);
        if i < 65534 { h.remove(t); }
    }
}
