//! D1 (C14, C15): a source that opted into lifecycle events and whose `register` fails must
//! leave no trace: the next dispatch must not panic.
use calloop::{EventLoop, EventSource, Poll, PostAction, Readiness, Token, TokenFactory};
use std::time::Duration;

struct Bad;
impl EventSource for Bad {
    type Event = ();
    type Metadata = ();
    type Ret = ();
    type Error = std::io::Error;
    const NEEDS_EXTRA_LIFECYCLE_EVENTS: bool = true;
    fn process_events<F>(&mut self, _: Readiness, _: Token, _: F) -> Result<PostAction, Self::Error>
    where
        F: FnMut((), &mut ()),
    {
        Ok(PostAction::Continue)
    }
    fn register(&mut self, _: &mut Poll, _: &mut TokenFactory) -> calloop::Result<()> {
        Err(calloop::Error::OtherError("nope".into()))
    }
    fn reregister(&mut self, _: &mut Poll, _: &mut TokenFactory) -> calloop::Result<()> {
        Ok(())
    }
    fn unregister(&mut self, _: &mut Poll) -> calloop::Result<()> {
        Ok(())
    }
}

#[test]
fn d1_failed_lifecycle_register_leaves_no_entry() {
    let mut el: EventLoop<()> = EventLoop::try_new().unwrap();
    assert!(el.handle().insert_source(Bad, |_, _, _| {}).is_err());
    // must not panic (unreachable!() in dispatch_events on the pinned tree)
    el.dispatch(Duration::ZERO, &mut ()).unwrap();
}
