//! D14 (C18): a child that is waiting to be registered (state `Register`: put there by replace() on a
//! disabled child) and is then removed or replaced again before the owed re-registration was never
//! registered -- it must simply be dropped, not unregistered.
use calloop::ping::{make_ping, Ping, PingSource};
use calloop::transient::TransientSource;
use calloop::{Dispatcher, EventLoop, EventSource, Poll, PostAction, Readiness, Token, TokenFactory};
use std::cell::Cell;
use std::rc::Rc;
use std::time::Duration;

struct Child { ping: PingSource, registered: bool, breach: Rc<Cell<u32>>, ret: PostAction }
impl EventSource for Child {
    type Event = ();
    type Metadata = ();
    type Ret = ();
    type Error = Box<dyn std::error::Error + Sync + Send>;
    fn process_events<F>(&mut self, r: Readiness, t: Token, cb: F) -> Result<PostAction, Self::Error> where F: FnMut((), &mut ()) { self.ping.process_events(r, t, cb)?; Ok(self.ret) }
    fn register(&mut self, p: &mut Poll, f: &mut TokenFactory) -> calloop::Result<()> { self.registered = true; self.ping.register(p, f) }
    fn reregister(&mut self, p: &mut Poll, f: &mut TokenFactory) -> calloop::Result<()> { self.ping.reregister(p, f) }
    fn unregister(&mut self, p: &mut Poll) -> calloop::Result<()> { if !self.registered { self.breach.set(self.breach.get() + 1); } self.registered = false; self.ping.unregister(p) }
}
fn child(flag: &Rc<Cell<u32>>, ret: PostAction) -> (Ping, Child) { let (p, s) = make_ping().unwrap(); (p, Child { ping: s, registered: false, breach: flag.clone(), ret }) }

fn run(second_is_remove: bool) {
    let flag = Rc::new(Cell::new(0));
    let mut el: EventLoop<()> = EventLoop::try_new().unwrap();
    let (ping, first) = child(&flag, PostAction::Disable);
    let disp = Dispatcher::new(TransientSource::from(first), |_, _, _| {});
    let tok = el.handle().register_dispatcher(disp.clone()).unwrap();
    // the child asks to be disabled: the wrapper returns Reregister and the loop unregisters the child
    ping.ping();
    el.dispatch(Duration::from_millis(100), &mut ()).unwrap();
    // replace the disabled child: the new one waits for its first registration ...
    let (_p2, second) = child(&flag, PostAction::Continue);
    disp.as_source_mut().replace(second);
    // ... and is removed / replaced again before the owed re-registration
    let (_p3, third) = child(&flag, PostAction::Continue);
    if second_is_remove { disp.as_source_mut().remove(); } else { disp.as_source_mut().replace(third); }
    el.handle().update(&tok).expect("the owed re-registration succeeds");
    assert_eq!(flag.get(), 0, "a child that was never registered was unregistered");
    el.handle().remove(tok);
    drop(disp);
    assert_eq!(flag.get(), 0);
}

#[test] fn d14_replace_disabled_then_remove() { run(true) }
#[test] fn d14_replace_disabled_then_replace() { run(false) }
