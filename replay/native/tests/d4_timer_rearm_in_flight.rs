//! D4 (C05): timers A (earlier) and B are both collected as expired in one dispatch; A's callback
//! re-arms B far in the future (set_deadline + update). B's already collected event is then
//! still delivered and B's callback runs long before its new deadline.
use calloop::timer::{TimeoutAction, Timer};
use calloop::{Dispatcher, EventLoop};
use std::cell::RefCell;
use std::rc::Rc;
use std::time::{Duration, Instant};

#[test]
fn d4_rearmed_timer_does_not_fire_from_stale_event() {
    let mut el: EventLoop<Vec<(Instant, Instant)>> = EventLoop::try_new().unwrap();
    let h = el.handle();
    let now = Instant::now();
    let b = Dispatcher::new(Timer::from_deadline(now + Duration::from_millis(20)), |dl, _, log: &mut Vec<(Instant, Instant)>| { log.push((dl, Instant::now())); TimeoutAction::Drop });
    let tb = h.register_dispatcher(b.clone()).unwrap();
    let slot = Rc::new(RefCell::new(Some((b, tb))));
    let h2 = h.clone();
    h.insert_source(Timer::from_deadline(now + Duration::from_millis(10)), move |_, _, _| {
        if let Some((b, tb)) = slot.borrow_mut().take() {
            b.as_source_mut().set_deadline(Instant::now() + Duration::from_secs(3600));
            h2.update(&tb).unwrap();
        }
        TimeoutAction::Drop
    }).unwrap();
    std::thread::sleep(Duration::from_millis(40)); // both are due when the dispatch polls
    let mut log = vec![];
    el.dispatch(Duration::ZERO, &mut log).unwrap();
    for (dl, at) in &log { assert!(at >= dl, "re-armed timer fired {:?} before its deadline", *dl - *at); }
}
