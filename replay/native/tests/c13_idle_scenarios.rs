//! Idle scenarios (C13): once, after the events, in insertion order, unless cancelled; an idle inserted
//! by an idle runs in the next dispatch; dropping the handle does not cancel.
use calloop::ping::make_ping;
use calloop::{EventLoop, LoopHandle};
use std::time::Duration;

type Log = Vec<&'static str>;

#[test]
fn order_once_and_after_events() {
    let mut el: EventLoop<Log> = EventLoop::try_new().unwrap();
    let h = el.handle();
    let (p, s) = make_ping().unwrap();
    h.insert_source(s, |_, _, log: &mut Log| log.push("event")).unwrap();
    h.insert_idle(|log: &mut Log| log.push("i1"));
    let dropped = h.insert_idle(|log: &mut Log| log.push("i2"));
    drop(dropped); // dropping the handle does not cancel
    let c = h.insert_idle(|log: &mut Log| log.push("cancelled"));
    c.cancel();
    h.insert_idle(|log: &mut Log| log.push("i3"));
    p.ping();
    let mut log = Log::new();
    el.dispatch(Duration::ZERO, &mut log).unwrap();
    assert_eq!(log, vec!["event", "i1", "i2", "i3"]);
    el.dispatch(Duration::ZERO, &mut log).unwrap();
    assert_eq!(log.len(), 4, "idles run exactly once");
}

#[test]
fn idle_inserted_by_idle_runs_in_the_following_dispatch() {
    let mut el: EventLoop<Log> = EventLoop::try_new().unwrap();
    let h: LoopHandle<Log> = el.handle();
    let h2 = h.clone();
    h.insert_idle(move |log: &mut Log| {
        log.push("outer");
        let h3 = h2.clone();
        h2.insert_idle(move |log: &mut Log| { log.push("inner"); h3.insert_idle(|log: &mut Log| log.push("innermost")); });
    });
    let mut log = Log::new();
    el.dispatch(Duration::ZERO, &mut log).unwrap();
    assert_eq!(log, vec!["outer"], "never in the same dispatch");
    el.dispatch(Duration::ZERO, &mut log).unwrap();
    assert_eq!(log, vec!["outer", "inner"]);
    el.dispatch(Duration::ZERO, &mut log).unwrap();
    assert_eq!(log, vec!["outer", "inner", "innermost"]);
    el.dispatch(Duration::ZERO, &mut log).unwrap();
    assert_eq!(log.len(), 3);
}

#[test]
fn idle_inserted_from_a_source_callback_runs_in_the_same_dispatch() {
    let mut el: EventLoop<Log> = EventLoop::try_new().unwrap();
    let h = el.handle();
    let (p, s) = make_ping().unwrap();
    let h2 = h.clone();
    h.insert_source(s, move |_, _, log: &mut Log| { log.push("event"); h2.insert_idle(|log: &mut Log| log.push("idle")); }).unwrap();
    p.ping();
    let mut log = Log::new();
    el.dispatch(Duration::ZERO, &mut log).unwrap();
    assert_eq!(log, vec!["event", "idle"]);
}

#[test]
fn cancel_from_an_earlier_idle() {
    let mut el: EventLoop<Log> = EventLoop::try_new().unwrap();
    let h = el.handle();
    let slot = std::rc::Rc::new(std::cell::RefCell::new(None));
    let s2 = slot.clone();
    h.insert_idle(move |log: &mut Log| { log.push("first"); if let Some(i) = s2.borrow_mut().take() { calloop::Idle::cancel(i); } });
    *slot.borrow_mut() = Some(h.insert_idle(|log: &mut Log| log.push("second")));
    let mut log = Log::new();
    el.dispatch(Duration::ZERO, &mut log).unwrap();
    assert_eq!(log, vec!["first"], "an idle cancelled before it ran never runs");
}

#[test]
fn idles_wait_for_a_dispatch_that_returns_ok() {
    use calloop::{EventSource, Poll, PostAction, Readiness, Token, TokenFactory};
    use calloop::ping::PingSource;
    struct Failing(PingSource, std::rc::Rc<std::cell::Cell<bool>>);
    impl EventSource for Failing {
        type Event = (); type Metadata = (); type Ret = ();
        type Error = Box<dyn std::error::Error + Sync + Send>;
        fn process_events<F>(&mut self, r: Readiness, t: Token, cb: F) -> Result<PostAction, Self::Error> where F: FnMut((), &mut ()) {
            self.0.process_events(r, t, cb)?;
            if self.1.get() { Err("failed".into()) } else { Ok(PostAction::Continue) }
        }
        fn register(&mut self, p: &mut Poll, f: &mut TokenFactory) -> calloop::Result<()> { self.0.register(p, f) }
        fn reregister(&mut self, p: &mut Poll, f: &mut TokenFactory) -> calloop::Result<()> { self.0.reregister(p, f) }
        fn unregister(&mut self, p: &mut Poll) -> calloop::Result<()> { self.0.unregister(p) }
    }
    let mut el: EventLoop<Log> = EventLoop::try_new().unwrap();
    let h = el.handle();
    let fail = std::rc::Rc::new(std::cell::Cell::new(true));
    let (p, s) = make_ping().unwrap();
    h.insert_source(Failing(s, fail.clone()), |_, _, log: &mut Log| log.push("source")).unwrap();
    h.insert_idle(|log: &mut Log| log.push("idle"));
    p.ping();
    let mut log = Log::new();
    assert!(el.dispatch(Duration::ZERO, &mut log).is_err());
    assert_eq!(log, vec!["source"], "an idle ran in a dispatch that returned an error");
    fail.set(false);
    el.dispatch(Duration::ZERO, &mut log).unwrap();
    assert_eq!(log, vec!["source", "idle"], "the idle runs after the events of the first dispatch that returns Ok");
}

#[test]
fn an_idle_inserted_after_a_cancellation_keeps_its_place_at_the_end() {
    // X, Y inserted; X cancelled; Z inserted: Z runs after Y (insertion order), also when this happens inside an idle
    let mut el: EventLoop<Log> = EventLoop::try_new().unwrap();
    let h = el.handle();
    let x = h.insert_idle(|log: &mut Log| log.push("x"));
    h.insert_idle(|log: &mut Log| log.push("y"));
    x.cancel();
    h.insert_idle(|log: &mut Log| log.push("z"));
    let mut log = Log::new();
    el.dispatch(Duration::ZERO, &mut log).unwrap();
    assert_eq!(log, vec!["y", "z"], "insertion order");
    let h2 = h.clone();
    h.insert_idle(move |log: &mut Log| {
        log.push("outer");
        let a = h2.insert_idle(|log: &mut Log| log.push("a"));
        h2.insert_idle(|log: &mut Log| log.push("b"));
        a.cancel();
        h2.insert_idle(|log: &mut Log| log.push("c"));
    });
    log.clear();
    el.dispatch(Duration::ZERO, &mut log).unwrap();
    assert_eq!(log, vec!["outer"]);
    el.dispatch(Duration::ZERO, &mut log).unwrap();
    assert_eq!(log, vec!["outer", "b", "c"], "insertion order among idles inserted by an idle");
}

/// a queued idle callback is neither an event nor a wake-up: the dispatch still waits for its timeout (or the timer
/// that bounds it, which then fires in that dispatch), and only then runs the idle
#[test]
fn a_queued_idle_does_not_shorten_the_wait() {
    use calloop::timer::{TimeoutAction, Timer};
    use std::time::Instant;
    let mut el: EventLoop<Log> = EventLoop::try_new().unwrap();
    let h = el.handle();
    h.insert_idle(|log: &mut Log| log.push("idle"));
    let mut log = Log::new();
    let t = Instant::now();
    el.dispatch(Duration::from_millis(150), &mut log).unwrap();
    assert!(t.elapsed() >= Duration::from_millis(140), "dispatch(150 ms) with nothing but a queued idle returned after {:?}", t.elapsed());
    assert_eq!(log, vec!["idle"]);
    h.insert_source(Timer::from_duration(Duration::from_millis(100)), |_, _, log: &mut Log| { log.push("timer"); TimeoutAction::Drop }).unwrap();
    let c = h.insert_idle(|log: &mut Log| log.push("cancelled"));
    c.cancel();
    h.insert_idle(|log: &mut Log| log.push("idle2"));
    log.clear();
    let t = Instant::now();
    el.dispatch(None, &mut log).unwrap();
    assert!(t.elapsed() >= Duration::from_millis(90), "dispatch(None) did not wait for the timer that bounds it ({:?})", t.elapsed());
    assert_eq!(log, vec!["timer", "idle2"], "the timer that bounded the wait fires in that dispatch, before the idles");
}

/// run(): the iteration in which a source callback asks the loop to stop is still a whole dispatch -- the idles that are
/// pending (inserted earlier, or by that very callback) run after its events, before run() returns
#[test]
fn idles_run_in_the_iteration_in_which_a_callback_stops_the_loop() {
    let mut el: EventLoop<Log> = EventLoop::try_new().unwrap();
    let h = el.handle();
    let sig = el.get_signal();
    let (p, s) = make_ping().unwrap();
    let h2 = h.clone();
    h.insert_source(s, move |_, _, log: &mut Log| {
        log.push("source");
        h2.insert_idle(|log: &mut Log| log.push("idle-from-callback"));
        sig.stop();
    }).unwrap();
    h.insert_idle(|log: &mut Log| log.push("idle-before"));
    p.ping();
    let mut log = Log::new();
    el.run(Duration::from_millis(200), &mut log, |log| log.push("cb")).unwrap();
    assert_eq!(log, vec!["source", "idle-before", "idle-from-callback", "cb"]);
}

/// round 9 (seed C13-6): however many idles are pending, every one of them runs in the first dispatch that returns Ok after
/// its insertion (there is no per-dispatch batch limit for idles), in insertion order
#[test]
fn a_large_number_of_pending_idles_all_run_in_the_first_dispatch() {
    for n in [1usize, 1024, 1025, 3000] {
        let mut el: EventLoop<Vec<usize>> = EventLoop::try_new().unwrap();
        let h = el.handle();
        for i in 0..n { h.insert_idle(move |v: &mut Vec<usize>| v.push(i)); }
        let mut v = vec![];
        el.dispatch(Duration::ZERO, &mut v).unwrap();
        assert_eq!(v.len(), n, "only {} of {} pending idles ran in the dispatch that followed their insertion", v.len(), n);
        assert!(v.iter().enumerate().all(|(i, x)| i == *x), "idles ran out of insertion order");
        el.dispatch(Duration::ZERO, &mut v).unwrap();
        assert_eq!(v.len(), n, "idles run exactly once");
    }
}
