//! Failed registrations leave the loop intact (C15).
use calloop::generic::Generic;
use calloop::{EventLoop, EventSource, Interest, Mode, Poll, PostAction, Readiness, Token, TokenFactory};
use std::io::Write;
use std::os::unix::net::UnixStream;
use std::rc::Rc;
use std::time::Duration;

struct Flaky { fail: bool }
impl EventSource for Flaky {
    type Event = ();
    type Metadata = ();
    type Ret = ();
    type Error = std::io::Error;
    fn process_events<F>(&mut self, _: Readiness, _: Token, _: F) -> Result<PostAction, Self::Error> where F: FnMut((), &mut ()) { Ok(PostAction::Continue) }
    fn register(&mut self, _: &mut Poll, _: &mut TokenFactory) -> calloop::Result<()> { if self.fail { Err(calloop::Error::OtherError("no".into())) } else { Ok(()) } }
    fn reregister(&mut self, _: &mut Poll, _: &mut TokenFactory) -> calloop::Result<()> { Ok(()) }
    fn unregister(&mut self, _: &mut Poll) -> calloop::Result<()> { Ok(()) }
}

#[test]
fn failed_insert_hands_the_source_back_and_can_be_retried() {
    let mut el: EventLoop<()> = EventLoop::try_new().unwrap();
    let h = el.handle();
    let e = h.insert_source(Flaky { fail: true }, |_, _, _| {}).err().expect("insertion fails");
    let mut src = e.inserted;
    src.fail = false;
    let t1 = h.insert_source(src, |_, _, _| {}).expect("retry succeeds");
    el.dispatch(Duration::ZERO, &mut ()).unwrap();
    // no slot was leaked by the failed attempt: removing and re-inserting keeps working, tokens stay distinct
    let t2 = h.insert_source(Flaky { fail: false }, |_, _, _| {}).unwrap();
    assert_ne!(t1, t2);
    h.remove(t1);
    h.remove(t2);
    el.dispatch(Duration::ZERO, &mut ()).unwrap();
}

#[test]
fn duplicate_fd_is_rejected_without_disturbing_the_first_source() {
    let mut el: EventLoop<u32> = EventLoop::try_new().unwrap();
    let h = el.handle();
    let (a, mut peer) = UnixStream::pair().unwrap();
    let a = Rc::new(a);
    struct Fd(Rc<UnixStream>);
    impl std::os::unix::io::AsFd for Fd { fn as_fd(&self) -> std::os::unix::io::BorrowedFd<'_> { self.0.as_fd() } }
    h.insert_source(Generic::new(Fd(a.clone()), Interest::READ, Mode::Level), |_, _, n: &mut u32| { *n += 1; Ok(PostAction::Continue) }).unwrap();
    assert!(h.insert_source(Generic::new(Fd(a.clone()), Interest::READ, Mode::Level), |_, _, _| Ok(PostAction::Continue)).is_err(), "the same fd twice");
    assert!(h.adapt_io(Fd(a.clone())).is_err(), "adapt_io on an fd that is already registered");
    peer.write_all(b"x").unwrap();
    let mut n = 0;
    el.dispatch(Duration::from_millis(100), &mut n).unwrap();
    assert_eq!(n, 1, "the first source lost its registration because a second registration of its fd failed");
    el.dispatch(Duration::from_millis(20), &mut n).unwrap();
    assert_eq!(n, 2);
}

#[test]
fn a_failed_insertion_does_not_bring_a_dead_token_back_to_life() {
    // the slot of a removed source is reused by an insertion that fails; whatever is inserted next must get a token
    // that differs from the removed source's, and the dead token must not act on the newcomer
    let mut el: EventLoop<u32> = EventLoop::try_new().unwrap();
    let h = el.handle();
    let ta = h.insert_source(Flaky { fail: false }, |_, _, _| {}).unwrap();
    h.remove(ta);
    assert!(h.insert_source(Flaky { fail: true }, |_, _, _| {}).is_err());
    let (ping, source) = calloop::ping::make_ping().unwrap();
    let tb = h.insert_source(source, |_, _, n: &mut u32| *n += 1).unwrap();
    assert_ne!(ta, tb, "the token of a removed source was handed out again");
    assert!(h.disable(&ta).is_err(), "a dead token disabled the source that now lives in its slot");
    h.remove(ta);
    ping.ping();
    let mut n = 0;
    el.dispatch(Duration::from_millis(100), &mut n).unwrap();
    assert_eq!(n, 1, "a dead token removed or disabled the source that now lives in its slot");
    // also from a fresh loop: first ever insertion fails, the next one is unaffected
    let el2: EventLoop<u32> = EventLoop::try_new().unwrap();
    assert!(el2.handle().insert_source(Flaky { fail: true }, |_, _, _| {}).is_err());
    let t1 = el2.handle().insert_source(Flaky { fail: false }, |_, _, _| {}).unwrap();
    el2.handle().remove(t1);
    assert!(el2.handle().insert_source(Flaky { fail: true }, |_, _, _| {}).is_err());
    let t2 = el2.handle().insert_source(Flaky { fail: false }, |_, _, _| {}).unwrap();
    assert_ne!(t1, t2);
}

#[test]
fn a_failing_enable_update_or_disable_leaves_every_source_as_it_was() {
    struct Fd(Rc<UnixStream>);
    impl std::os::unix::io::AsFd for Fd { fn as_fd(&self) -> std::os::unix::io::BorrowedFd<'_> { self.0.as_fd() } }
    let mut el: EventLoop<u32> = EventLoop::try_new().unwrap();
    let h = el.handle();
    let (a, mut peer) = UnixStream::pair().unwrap();
    let a = Rc::new(a);
    // A on the fd, then disabled; B takes the same fd
    let ta = h.insert_source(Generic::new(Fd(a.clone()), Interest::READ, Mode::Level), |_, _, n: &mut u32| { *n += 100; Ok(PostAction::Continue) }).unwrap();
    h.disable(&ta).unwrap();
    let tb = h.insert_source(Generic::new(Fd(a.clone()), Interest::READ, Mode::Level), |_, _, n: &mut u32| { *n += 1; Ok(PostAction::Continue) }).unwrap();
    // enabling A must fail (the fd is taken) and must not take B's registration away
    assert!(h.enable(&ta).is_err(), "two registrations of one fd");
    peer.write_all(b"x").unwrap();
    let mut n = 0;
    el.dispatch(Duration::from_millis(100), &mut n).unwrap();
    assert_eq!(n, 1, "a failing enable() of one source cost another source its registration");
    // enabling an enabled source fails and leaves it enabled; a failing disable of a disabled one leaves it disabled
    assert!(h.enable(&tb).is_err());
    el.dispatch(Duration::from_millis(100), &mut n).unwrap();
    assert_eq!(n, 2, "a failing enable() of an enabled source disabled it");
    h.remove(tb);
    h.enable(&ta).expect("the fd is free again");
    el.dispatch(Duration::from_millis(100), &mut n).unwrap();
    assert_eq!(n, 102);
}
